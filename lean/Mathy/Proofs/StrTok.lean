/-
The tokenizer model maps the character-level `__str__` model (`strChars`) to the token-level one
(`printToks`): lemmas for `Props/C04Str.lean`.
-/
import Mathy.Model.PrintStr
import Mathy.Proofs.TokLemmas
namespace Mathy
namespace StrTok

/-- what may follow a printed sub-expression: nothing, or a character that is neither part of a
number nor a letter (so that it cannot extend the last token of the sub-expression) -/
def Boundary (rest : List Char) : Prop :=
  ∀ c, rest.head? = some c → isNumber c = false ∧ isAlpha c = false

/-- side conditions on the characters: variables are letters, the number formatter yields
non-empty runs of digits/dots, no `abs` node (the name is not registered with the tokenizer) -/
def StrOk (nt : Rat → List Char) : Ex → Prop
  | .const _ v => nt (if v < 0 then -v else v) ≠ [] ∧ ∀ c ∈ nt (if v < 0 then -v else v), isNumber c = true
  | .var _ x => isAlpha x = true
  | .un _ .abs _ => False
  | .un _ .neg c => StrOk nt c
  | .un _ .fact c => StrOk nt c
  | .un _ .sgn c => StrOk nt c
  | .bin _ _ l r => StrOk nt l ∧ StrOk nt r

/-- `s` tokenizes to `ts` in front of any boundary -/
def Tk (s : List Char) (ts : List Tok) : Prop :=
  ∀ rest, Boundary rest → tb false (s ++ rest) = (tb false rest).map (fun r => ts ++ r)

theorem map_map {α β γ ε : Type} (f : α → β) (g : β → γ) (r : Except ε α) :
    (r.map f).map g = r.map (fun x => g (f x)) := by
  cases r <;> rfl

theorem boundary_nil : Boundary [] := by intro c h; simp at h

theorem boundary_cons (c : Char) (rest : List Char) (hn : isNumber c = false) (ha : isAlpha c = false) :
    Boundary (c :: rest) := by
  intro d h; simp at h; subst h; exact ⟨hn, ha⟩

/-- an operator character: not a digit/dot, not a letter, and a known operator token -/
structure OpChar (c : Char) (t : List Tok) : Prop where
  hn : isNumber c = false
  ha : isAlpha c = false
  ho : operatorTok false c = some t

theorem tb_opchar {c : Char} {t : List Tok} (h : OpChar c t) (rest : List Char) :
    tb false (c :: rest) = (tb false rest).map (fun r => t ++ r) :=
  tb_op_some false c rest t h.hn h.ha h.ho

theorem op_lparen : OpChar '(' [tk .openParen "("] := ⟨by decide, by decide, by decide⟩
theorem op_rparen : OpChar ')' [tk .closeParen ")"] := ⟨by decide, by decide, by decide⟩
theorem op_minus : OpChar '-' [tk .minus "-"] := ⟨by decide, by decide, by decide⟩
theorem op_bang : OpChar '!' [tk .factorial "!"] := ⟨by decide, by decide, by decide⟩
theorem op_caret : OpChar '^' [tk .exponent "^"] := ⟨by decide, by decide, by decide⟩
theorem op_space : OpChar ' ' [] := ⟨by decide, by decide, by decide⟩

theorem op_bop (o : Bop) : OpChar (opChar o) [opTok o] := by
  cases o <;> exact ⟨by decide, by decide, by decide⟩

/-- operator character in front -/
theorem Tk.cons {c : Char} {t : List Tok} (h : OpChar c t) {s : List Char} {ts : List Tok}
    (hs : Tk s ts) : Tk (c :: s) (t ++ ts) := by
  intro rest hb
  rw [List.cons_append, tb_opchar h, hs rest hb, map_map]
  simp [List.append_assoc]

/-- two pieces separated by an operator character -/
theorem Tk.seq {c : Char} {t : List Tok} (h : OpChar c t) {s1 s2 : List Char} {ts1 ts2 : List Tok}
    (h1 : Tk s1 ts1) (h2 : Tk s2 ts2) : Tk (s1 ++ c :: s2) (ts1 ++ t ++ ts2) := by
  intro rest hb
  have hb' : Boundary (c :: (s2 ++ rest)) := boundary_cons c _ h.hn h.ha
  rw [List.append_assoc, List.cons_append, h1 _ hb', tb_opchar h, h2 rest hb, map_map, map_map]
  simp [List.append_assoc]

/-- operator character behind -/
theorem Tk.snoc {c : Char} {t : List Tok} (h : OpChar c t) {s : List Char} {ts : List Tok}
    (hs : Tk s ts) : Tk (s ++ [c]) (ts ++ t) := by
  intro rest hb
  have hb' : Boundary (c :: rest) := boundary_cons c _ h.hn h.ha
  rw [List.append_assoc, List.singleton_append, hs _ hb', tb_opchar h, map_map]
  simp [List.append_assoc]

theorem Tk.paren {s : List Char} {ts : List Tok} (hs : Tk s ts) (b : Bool) :
    Tk (parensC b s) (parens b ts) := by
  cases b with
  | false => simpa [parensC, parens] using hs
  | true =>
    have := Tk.cons op_lparen (Tk.snoc op_rparen hs)
    simpa [parensC, parens, List.append_assoc] using this

/-- a non-empty run of digits/dots in front of anything that is not a digit/dot -/
theorem tb_run (run rest : List Char) (hne : run ≠ []) (hrun : ∀ c ∈ run, isNumber c = true)
    (hrest : ∀ c, rest.head? = some c → isNumber c = false) :
    tb false (run ++ rest) = (tb false rest).map (fun r => ⟨.constant, run⟩ :: r) := by
  cases run with
  | nil => exact absurd rfl hne
  | cons c run' =>
    obtain ⟨h1, h2⟩ := takeWhile_dropWhile_run isNumber run' rest
      (fun d hd => hrun d (by simp [hd])) hrest
    rw [List.cons_append, tb_number false c _ (hrun c (by simp)), h1, h2]

/-- `str(constant)` in front of anything that is not a digit/dot (a letter may follow: `4x`) -/
theorem tb_const (nt : Rat → List Char) (t : Nat) (v : Rat) (rest : List Char)
    (hok : StrOk nt (.const t v)) (hrest : ∀ c, rest.head? = some c → isNumber c = false) :
    tb false (constChars nt v ++ rest) = (tb false rest).map (fun r => constToks nt v ++ r) := by
  obtain ⟨hne, hrun⟩ := hok
  unfold constChars constToks
  by_cases hv : v < 0
  · simp only [hv, if_true] at hne hrun ⊢
    rw [List.cons_append, tb_opchar op_minus, tb_run _ _ hne hrun hrest, map_map]
    rfl
  · simp only [hv, if_false] at hne hrun ⊢
    rw [tb_run _ _ hne hrun hrest]
    rfl

theorem tk_const (nt : Rat → List Char) (t : Nat) (v : Rat) (hok : StrOk nt (.const t v)) :
    Tk (constChars nt v) (constToks nt v) := by
  intro rest hb
  exact tb_const nt t v rest hok (fun c hc => (hb c hc).1)

/-- a single letter in front of anything that is not a letter -/
theorem tb_var (x : Char) (rest : List Char) (hx : isAlpha x = true)
    (hrest : ∀ c, rest.head? = some c → isAlpha c = false) :
    tb false (x :: rest) = (tb false rest).map (fun r => (⟨.variable, [x]⟩ : Tok) :: r) := by
  have hn : isNumber x = false := by
    cases hnum : isNumber x with
    | false => rfl
    | true => exact absurd hx (by rw [isAlpha_of_isNumber x hnum]; simp)
  obtain ⟨h1, h2⟩ := takeWhile_dropWhile_run isAlpha [] rest (by simp) hrest
  simp only [List.nil_append] at h1 h2
  rw [tb_alpha false x rest hn hx, h1, h2]
  have : alphaToks [x] = [⟨.variable, [x]⟩] := by
    simp [alphaToks, functionNames]
  rw [this]; rfl

theorem tk_var (x : Char) (hx : isAlpha x = true) : Tk [x] [⟨.variable, [x]⟩] := by
  intro rest hb
  rw [List.singleton_append, tb_var x rest hx (fun c hc => (hb c hc).2)]
  rfl

/-- the name `sgn` in front of an opening parenthesis -/
theorem tb_sgn (rest : List Char) :
    tb false ("sgn".toList ++ '(' :: rest) =
      (tb false rest).map (fun r => tk .function "sgn" :: tk .openParen "(" :: r) := by
  have hrest : ∀ c, ('(' :: rest).head? = some c → isAlpha c = false := by
    intro c hc; simp at hc; subst hc; decide
  obtain ⟨h1, h2⟩ := takeWhile_dropWhile_run isAlpha ['g', 'n'] ('(' :: rest)
    (by intro c hc; simp at hc; rcases hc with rfl | rfl <;> decide) hrest
  have e : "sgn".toList ++ '(' :: rest = 's' :: (['g', 'n'] ++ '(' :: rest) := rfl
  rw [e, tb_alpha false 's' _ (by decide) (by decide), h1, h2, tb_opchar op_lparen, map_map]
  have : alphaToks ['s', 'g', 'n'] = [tk .function "sgn"] := by decide
  rw [this]; rfl

theorem isCompactProduct_cases {e : Ex} (h : isCompactProduct e = true) :
    (∃ t tc c tx x, e = .bin t .mul (.const tc c) (.var tx x)) ∨
    (∃ t tc c tp tx x k, e = .bin t .mul (.const tc c) (.bin tp .pow (.var tx x) k)) := by
  unfold isCompactProduct at h
  split at h
  · rename_i t tc c tx x; exact .inl ⟨t, tc, c, tx, x, rfl⟩
  · rename_i t tc c tp tx x k; exact .inr ⟨t, tc, c, tp, tx, x, k, rfl⟩
  · cases h

theorem strChars_bin (nt : Rat → List Char) (p : Option (Bop × Side)) (t : Nat) (o : Bop) (l r : Ex)
    (ho : o ≠ .pow) :
    strChars nt p (.bin t o l r) =
      if isCompactProduct (.bin t o l r) then
        strChars nt (some (o, .left)) l ++ strChars nt (some (o, .right)) r
      else
        parensC (selfParens o p)
          (strChars nt (some (o, .left)) l ++ ' ' :: opChar o :: ' ' :: strChars nt (some (o, .right)) r) := by
  cases o <;> first | exact absurd rfl ho | simp only [strChars]

theorem printToks_bin (nt : Rat → List Char) (p : Option (Bop × Side)) (t : Nat) (o : Bop) (l r : Ex)
    (ho : o ≠ .pow) :
    printToks nt p (.bin t o l r) =
      if isCompactProduct (.bin t o l r) then
        printToks nt (some (o, .left)) l ++ printToks nt (some (o, .right)) r
      else
        parens (selfParens o p)
          (printToks nt (some (o, .left)) l ++ opTok o :: printToks nt (some (o, .right)) r) := by
  cases o <;> first | exact absurd rfl ho | simp only [printToks]

/-- **main lemma**: `str(e)` tokenizes to the model's print tokens, in front of any boundary -/
theorem tk_str (nt : Rat → List Char) : ∀ (e : Ex) (p : Option (Bop × Side)), StrOk nt e →
    Tk (strChars nt p e) (printToks nt p e) := by
  intro e
  induction e with
  | const t v =>
    intro p hok
    simpa [strChars, printToks] using tk_const nt t v hok
  | var t x =>
    intro p hok
    simpa [strChars, printToks] using tk_var x hok
  | un t o c ih =>
    intro p hok
    cases o with
    | abs => exact absurd hok (by simp [StrOk])
    | neg =>
      have := Tk.cons op_minus ((ih none hok).paren (negateNeedsParens c))
      simpa [strChars, printToks] using this
    | fact =>
      have := Tk.snoc op_bang (ih none hok)
      simpa [strChars, printToks] using this
    | sgn =>
      intro rest hb
      have hin := Tk.snoc op_rparen (ih none hok)
      have key : tb false ("sgn".toList ++ '(' :: ((strChars nt none c ++ [')']) ++ rest)) =
          (tb false rest).map (fun r => tk .function "sgn" :: tk .openParen "(" ::
            ((printToks nt none c ++ [tk .closeParen ")"]) ++ r)) := by
        rw [tb_sgn, hin rest hb, map_map]
      simpa [strChars, printToks, parensC, Mathy.parens, List.append_assoc] using key
  | bin t o l r ihl ihr =>
    intro p hok
    obtain ⟨hl, hr⟩ := hok
    by_cases ho : o = .pow
    · subst ho
      have := Tk.seq op_caret ((ihl (some (.pow, .left)) hl).paren (powerBaseNeedsParens l))
        ((ihr (some (.pow, .right)) hr).paren (r.isOp .pow))
      simpa [strChars, printToks, List.append_assoc] using this
    · rw [strChars_bin nt p t o l r ho, printToks_bin nt p t o l r ho]
      by_cases hcp : isCompactProduct (.bin t o l r) = true
      · rw [if_pos hcp, if_pos hcp]
        intro rest hb
        have hR := ihr (some (o, .right)) hr rest hb
        rcases isCompactProduct_cases hcp with ⟨t', tc, c, tx, x, he⟩ | ⟨t', tc, c, tp, tx, x, k, he⟩
        · injection he with _ ho' hl' hr'
          subst hl' hr'
          have hx : isAlpha x = true := hr
          have hxn : isNumber x = false := by
            cases hnum : isNumber x with
            | false => rfl
            | true => exact absurd hx (by rw [isAlpha_of_isNumber x hnum]; simp)
          have hhead : ∀ d, (strChars nt (some (o, .right)) (.var tx x) ++ rest).head? = some d →
              isNumber d = false := by
            intro d hd; simp [strChars] at hd; subst hd; exact hxn
          simp only [strChars, printToks] at hR hhead ⊢
          rw [List.append_assoc, tb_const nt tc c _ hl hhead, hR, map_map]
          simp [List.append_assoc]
        · injection he with _ ho' hl' hr'
          subst hl' hr'
          have hx : isAlpha x = true := hr.1
          have hxn : isNumber x = false := by
            cases hnum : isNumber x with
            | false => rfl
            | true => exact absurd hx (by rw [isAlpha_of_isNumber x hnum]; simp)
          have hhead : ∀ d, (strChars nt (some (o, .right)) (.bin tp .pow (.var tx x) k) ++ rest).head? = some d →
              isNumber d = false := by
            intro d hd
            simp [strChars, powerBaseNeedsParens, parensC, Ex.isUn, Ex.isOp, isCompactProduct] at hd
            subst hd; exact hxn
          have hc : strChars nt (some (o, .left)) (.const tc c) = constChars nt c := by simp [strChars]
          have hct : printToks nt (some (o, .left)) (.const tc c) = constToks nt c := by simp [printToks]
          rw [hc, hct, List.append_assoc, tb_const nt tc c _ hl hhead, hR, map_map]
          simp [List.append_assoc]
      · rw [if_neg hcp, if_neg hcp]
        have h1 := Tk.seq op_space (ihl (some (o, .left)) hl)
          (Tk.cons (op_bop o) (Tk.cons op_space (ihr (some (o, .right)) hr)))
        have := h1.paren (selfParens o p)
        simpa [List.append_assoc] using this

end StrTok
end Mathy
