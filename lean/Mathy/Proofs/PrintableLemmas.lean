/-
Printability (`NoEq` / `Printable` of `Props/C04.lean`) is preserved by every rewrite and holds for
every parser output.  Used by `Props/C09Print.lean`.
-/
import Mathy.Props.C04
import Mathy.Props.C09
namespace Mathy

/-! ### basic facts -/

theorem noEq_printable {e : Ex} (h : NoEq e = true) : Printable e = true := by
  cases e with
  | const t v => simp [Printable, NoEq]
  | var t x => simp [Printable, NoEq]
  | un t o c => simpa [Printable] using h
  | bin t o l r => cases o <;> simp_all [NoEq, Printable]

theorem printable_of_not_eq {e : Ex} (h : e.isOp .eq = false) : Printable e = NoEq e := by
  cases e with
  | const t v => simp [Printable]
  | var t x => simp [Printable]
  | un t o c => simp [Printable]
  | bin t o l r => cases o <;> simp_all [Printable, Ex.isOp]

@[simp] theorem isConst_clone (e : Ex) : e.clone.isConst = e.isConst := by
  cases e <;> rfl

@[simp] theorem noEq_clone (e : Ex) : NoEq e.clone = NoEq e := by
  induction e with
  | const t v => rfl
  | var t x => rfl
  | un t o c ih => cases o <;> simp [Ex.clone, NoEq, ih]
  | bin t o l r ihl ihr => cases o <;> simp [Ex.clone, NoEq, ihl, ihr]

/-! ### replacing a node below a context -/

/-- `n'` may take the place of `n` anywhere in a printable tree -/
structure Repl (n n' : Ex) : Prop where
  noEq : NoEq n = true → NoEq n' = true
  pr : Printable n = true → Printable n' = true
  cst : n.isConst = true → n'.isConst = true

theorem Repl.of_noEq {n n' : Ex} (hne : n.isOp .eq = false) (hc : n.isConst = false)
    (h : NoEq n = true → NoEq n' = true) : Repl n n' :=
  ⟨h, fun hp => noEq_printable (h (by rwa [← printable_of_not_eq hne])), fun h' => by simp [hc] at h'⟩

theorem Repl.fill {n n' : Ex} (h : Repl n n') (f : Frame) : Repl (f.fill n) (f.fill n') := by
  obtain ⟨h1, h2, h3⟩ := h
  cases f with
  | binL t o r =>
    cases o <;> refine ⟨?_, ?_, ?_⟩ <;> simp_all [Frame.fill, NoEq, Printable, Ex.isConst]
  | binR t o l =>
    cases o <;> refine ⟨?_, ?_, ?_⟩ <;> simp_all [Frame.fill, NoEq, Printable, Ex.isConst]
  | un t o =>
    cases o <;> refine ⟨?_, ?_, ?_⟩ <;> simp_all [Frame.fill, NoEq, Printable, Ex.isConst]

theorem Repl.plug {n n' : Ex} (h : Repl n n') (k : Ctx) :
    Printable (plug k n) = true → Printable (plug k n') = true := by
  induction k generalizing n n' with
  | nil => exact h.pr
  | cons f fs ih => exact ih (h.fill f)

/-! ### Associative swap -/

theorem asApply_repl {k k' : Ctx} {n n' : Ex} (hc : asCan k n = true)
    (h : asApply k n = .ok (k', n')) : ∃ f, k = f :: k' ∧ Repl (f.fill n) n' := by
  unfold asApply at h
  split at h
  · simp at h
    obtain ⟨rfl, rfl⟩ := h
    refine ⟨_, rfl, ?_⟩
    simp [asCan, parentIs, Frame.isOp, Ex.isOp] at hc
    rcases hc with ⟨rfl, rfl⟩ | ⟨rfl, rfl⟩ <;>
      exact Repl.of_noEq (by simp [Frame.fill, Ex.isOp]) (by simp [Frame.fill, Ex.isConst])
        (by simp [Frame.fill, NoEq]; tauto)
  · simp at h
    obtain ⟨rfl, rfl⟩ := h
    refine ⟨_, rfl, ?_⟩
    simp [asCan, parentIs, Frame.isOp, Ex.isOp] at hc
    rcases hc with ⟨rfl, rfl⟩ | ⟨rfl, rfl⟩ <;>
      exact Repl.of_noEq (by simp [Frame.fill, Ex.isOp]) (by simp [Frame.fill, Ex.isConst])
        (by simp [Frame.fill, NoEq]; tauto)
  · simp at h

/-! ### Commutative swap -/

theorem csApply_repl {k k' : Ctx} {n n' : Ex} (h : csApply k n = .ok (k', n')) :
    k' = k ∧ Repl n n' := by
  cases n with
  | const t v => simp [csApply] at h
  | var t v => simp [csApply] at h
  | un t o c => simp [csApply] at h
  | bin t o a b =>
    cases o
    case eq =>
      simp [csApply] at h
      obtain ⟨rfl, rfl⟩ := h
      exact ⟨rfl, ⟨by simp [NoEq], by simp [Printable]; tauto, by simp [Ex.isConst]⟩⟩
    all_goals (
      cases a with
      | bin at' ao a1 two =>
        cases ao <;> simp [csApply] at h <;> obtain ⟨rfl, rfl⟩ := h <;>
          exact ⟨rfl, Repl.of_noEq (by simp [Ex.isOp]) (by simp [Ex.isConst])
            (by simp [NoEq]; try tauto)⟩
      | _ =>
        simp [csApply] at h
        obtain ⟨rfl, rfl⟩ := h
        exact ⟨rfl, Repl.of_noEq (by simp [Ex.isOp]) (by simp [Ex.isConst])
          (by simp [NoEq]; try tauto)⟩)

/-! ### Constant arithmetic -/

theorem caStep_noEq {n n' : Ex} {ty : CAType} (h : caStep n = some (ty, .ok n'))
    (hn : NoEq n = true) : NoEq n' = true := by
  unfold caStep at h
  repeat' (split at h)
  all_goals (first | (simp at h; done) | skip)
  all_goals (
    simp at h
    first
    | (obtain ⟨-, rfl⟩ := h
       simp_all [NoEq])
    | (obtain ⟨-, h⟩ := h
       obtain ⟨v, -, rfl⟩ := foldConst_ok h
       simp [NoEq]))

theorem caStep_not_const {n : Ex} {x : CAType × Except RErr Ex} (h : caStep n = some x) :
    n.isConst = false := by
  cases n <;> simp [caStep] at h <;> rfl

theorem caApply_repl {k k' : Ctx} {n n' : Ex} (h : caApply k n = .ok (k', n')) :
    k' = k ∧ Repl n n' := by
  unfold caApply at h
  split at h
  · simp at h
  · rename_i hs
    simp at h
    obtain ⟨rfl, rfl⟩ := h
    exact ⟨rfl, Repl.of_noEq (caStep_kind hs).2 (caStep_not_const hs) (caStep_noEq hs)⟩
  · simp at h

/-! ### Terms -/

theorem makeTerm_noEq {q : Rat} {v : Option Char} {e : Option Rat} {m : Ex}
    (h : makeTerm q v e = some m) : NoEq m = true := by
  unfold makeTerm at h
  repeat' (split at h)
  all_goals (first | (simp at h; done) | skip)
  all_goals (simp at h; subst h; simp [NoEq])

/-! ### Distributive factor out -/

theorem dfStep_noEq {n ln rn : Ex} {ty : DFType} {lt rt : TermEx} {wrap : Ex → Ex}
    (h : dfStep n = some (ty, (ln, lt), (rn, rt), wrap)) (hn : NoEq n = true)
    (core : Ex) (hc : NoEq core = true) : NoEq (wrap core) = true := by
  unfold dfStep at h
  repeat' (split at h)
  all_goals (first | (simp at h; done) | skip)
  all_goals (
    simp at h
    obtain ⟨-, ⟨rfl, rfl⟩, ⟨rfl, rfl⟩, rfl⟩ := h
    simp_all [NoEq])

theorem dfCore_noEq {lt rt : TermEx} {core : Ex} (h : dfCore lt rt = some core) :
    NoEq core = true := by
  unfold dfCore at h
  split at h
  · simp at h
  split at h
  rotate_left
  · simp at h
  rename_i a b c ha hb hc
  simp at h
  subst h
  simp [NoEq, makeTerm_noEq ha, makeTerm_noEq hb, makeTerm_noEq hc]

theorem dfApply_repl {k k' : Ctx} {n n' : Ex} (h : dfApply k n = .ok (k', n')) :
    k' = k ∧ Repl n n' := by
  unfold dfApply at h
  split at h
  · simp at h
  · rename_i ty ln lt rn rt wrap hs
    split at h
    · rename_i core hc
      simp at h
      obtain ⟨rfl, rfl⟩ := h
      have hne := (dfStep_kind hs (.const 0 0) (.const 0 0)).2
      refine ⟨rfl, Repl.of_noEq hne ?_ (fun hn => dfStep_noEq hs hn core (dfCore_noEq hc))⟩
      cases n <;> simp [dfStep] at hs
      rfl
    · simp at h

/-! ### Distributive multiply -/

theorem dmBuild_noEq (a b c : Ex) (ha : NoEq a = true) (hb : NoEq b = true) (hc : NoEq c = true) :
    NoEq (dmBuild a b c) = true := by
  unfold dmBuild
  simp only
  split_ifs <;> simp [NoEq, ha, hb, hc]

theorem dmApply_repl {k k' : Ctx} {n n' : Ex} (h : dmApply k n = .ok (k', n')) :
    k' = k ∧ Repl n n' := by
  unfold dmApply at h
  split at h
  · simp at h
    obtain ⟨rfl, rfl⟩ := h
    refine ⟨rfl, Repl.of_noEq (by simp [Ex.isOp]) (by simp [Ex.isConst]) ?_⟩
    intro hn
    simp [NoEq] at hn
    exact dmBuild_noEq _ _ _ hn.2 hn.1.1 hn.1.2
  · simp at h
    obtain ⟨rfl, rfl⟩ := h
    refine ⟨rfl, Repl.of_noEq (by simp [Ex.isOp]) (by simp [Ex.isConst]) ?_⟩
    intro hn
    simp [NoEq] at hn
    exact dmBuild_noEq _ _ _ hn.1 hn.2.1 hn.2.2
  · simp at h

/-! ### Multiplicative inverse -/

theorem miApply_repl {k k' : Ctx} {n n' : Ex} (h : miApply k n = .ok (k', n')) :
    k' = k ∧ Repl n n' := by
  unfold miApply at h
  split at h
  · simp at h
    obtain ⟨rfl, rfl⟩ := h
    exact ⟨rfl, Repl.of_noEq (by simp [Ex.isOp]) (by simp [Ex.isConst]) (by simp [NoEq])⟩
  · simp at h
    obtain ⟨rfl, rfl⟩ := h
    exact ⟨rfl, Repl.of_noEq (by simp [Ex.isOp]) (by simp [Ex.isConst]) (by simp [NoEq])⟩
  · simp at h

/-! ### Restate subtraction -/

theorem rsStep_noEq {k : Ctx} {n n' : Ex} {ty : RSType} (h : rsStep k n = some (ty, n'))
    (hn : NoEq n = true) : NoEq n' = true := by
  unfold rsStep at h
  repeat' (split at h)
  all_goals (first | (simp at h; done) | skip)
  all_goals (
    simp at h
    obtain ⟨-, rfl⟩ := h
    simp_all [NoEq])

theorem rsApply_repl {k k' : Ctx} {n n' : Ex} (h : rsApply k n = .ok (k', n')) :
    k' = k ∧ Repl n n' := by
  unfold rsApply at h
  split at h
  · rename_i hs
    simp at h
    obtain ⟨rfl, rfl⟩ := h
    refine ⟨rfl, Repl.of_noEq (rsStep_kind hs).2 ?_ (rsStep_noEq hs)⟩
    cases n <;> simp [rsStep] at hs
    rfl
  · simp at h

/-! ### Variable multiply -/

theorem vmStep_shape {n : Ex} {ty : VMType} {ln rn : Ex} {lt rt : TermEx}
    {wrap : List Rat → Ex → Ex}
    (h : vmStep n = some (ty, (ln, lt), (rn, rt), wrap)) :
    (∃ t l r, n = .bin t .mul l r ∧ wrap = vmWrapSimple) ∨
    (∃ t t' l rl keep, n = .bin t .mul l (.bin t' .mul rl keep) ∧ wrap = vmWrapChained keep) ∨
    (∃ t t' keep lr r, n = .bin t .mul (.bin t' .mul keep lr) r ∧ wrap = vmWrapCLR keep) := by
  unfold vmStep at h
  split at h
  rotate_left
  · simp at h
  rename_i t l r
  simp only at h
  split at h
  · rename_i hclr
    simp at h
    subst h
    split at hclr
    rotate_left
    · simp at hclr
    rename_i keep lr _ _ _
    split at hclr
    rotate_left
    · simp at hclr
    split at hclr
    rotate_left
    · simp at hclr
    simp at hclr
    obtain ⟨-, ⟨rfl, rfl⟩, ⟨rfl, rfl⟩, rfl⟩ := hclr
    exact Or.inr (Or.inr ⟨_, _, _, _, _, rfl, rfl⟩)
  · split at h
    · simp at h
    · split at h
      · simp at h
      · split at h
        · split at h
          · simp at h
          · split at h
            · simp at h
            · simp at h
              obtain ⟨-, ⟨rfl, rfl⟩, ⟨rfl, rfl⟩, rfl⟩ := h
              exact Or.inl ⟨_, _, _, rfl, rfl⟩
        · split at h
          rotate_left
          · simp at h
          split at h
          · simp at h
          · split at h
            · simp at h
            · split at h
              · simp at h
              · simp at h
                obtain ⟨-, ⟨rfl, rfl⟩, ⟨rfl, rfl⟩, rfl⟩ := h
                exact Or.inr (Or.inl ⟨_, _, _, _, _, rfl, rfl⟩)

theorem vmApply_repl {k k' : Ctx} {n n' : Ex} (h : vmApply k n = .ok (k', n')) :
    k' = k ∧ Repl n n' := by
  unfold vmApply at h
  split at h
  · simp at h
  · rename_i ty ln lt rn rt wrap hs
    split at h
    · simp at h
    · rename_i x hx
      simp at h
      obtain ⟨rfl, rfl⟩ := h
      refine ⟨rfl, ?_⟩
      rcases vmStep_shape hs with ⟨t, l, r, rfl, rfl⟩ | ⟨t, t', l, rl, keep, rfl, rfl⟩ |
          ⟨t, t', keep, lr, r, rfl, rfl⟩ <;>
        refine Repl.of_noEq (by simp [Ex.isOp]) (by simp [Ex.isConst]) ?_ <;>
        rcases vmCoefs lt rt with _ | ⟨a, _ | ⟨b, _ | ⟨c, cs⟩⟩⟩ <;>
        simp [vmWrapSimple, vmWrapChained, vmWrapCLR, NoEq] <;> tauto

/-! ### Balanced move -/

theorem noEq_of_plug {k : Ctx} {e : Ex} (h : NoEq (plug k e) = true) : NoEq e = true := by
  induction k generalizing e with
  | nil => exact h
  | cons f fs ih =>
    have := ih h
    cases f with
    | binL t o r => cases o <;> simp_all [Frame.fill, NoEq]
    | binR t o l => cases o <;> simp_all [Frame.fill, NoEq]
    | un t o =>
      cases o <;> simp_all [Frame.fill, NoEq]
      cases e <;> simp_all [Ex.isConst, NoEq]

theorem noEq_plug_allAdd {k : Ctx} (ha : allAdd k = true) {e e' : Ex}
    (h : NoEq (plug k e) = true) (he : NoEq e' = true) : NoEq (plug k e') = true := by
  induction k generalizing e e' with
  | nil => exact he
  | cons f fs ih =>
    simp [allAdd] at ha
    refine ih ha.2 h ?_
    have := noEq_of_plug (k := fs) h
    cases f with
    | binL t o r =>
      simp [Frame.isOp] at ha; obtain ⟨rfl, -⟩ := ha; simp_all [Frame.fill, NoEq]
    | binR t o l =>
      simp [Frame.isOp] at ha; obtain ⟨rfl, -⟩ := ha; simp_all [Frame.fill, NoEq]
    | un t o => simp [Frame.isOp] at ha

theorem removeAddend_noEq {inner inner' : Ctx} {sib n : Ex}
    (h : removeAddend inner = some (inner', sib)) (ha : allAdd inner = true)
    (hn : NoEq (plug inner n) = true) : NoEq (plug inner' sib) = true := by
  unfold removeAddend at h
  split at h
  · rename_i t o r inner'
    simp at h; obtain ⟨rfl, rfl⟩ := h
    simp [allAdd, Frame.isOp] at ha
    have h1 := noEq_of_plug (k := inner') hn
    obtain ⟨rfl, ha⟩ := ha
    simp [Frame.fill, NoEq] at h1
    exact noEq_plug_allAdd ha hn h1.2
  · rename_i t o r inner'
    simp at h; obtain ⟨rfl, rfl⟩ := h
    simp [allAdd, Frame.isOp] at ha
    have h1 := noEq_of_plug (k := inner') hn
    obtain ⟨rfl, ha⟩ := ha
    simp [Frame.fill, NoEq] at h1
    exact noEq_plug_allAdd ha hn h1.1
  · simp at h

/-- `bmType` only fires when neither side of the root equation is itself an equation -/
theorem bmType_sides {k inner : Ctx} {rootF : Frame} {n : Ex} {ty : BMType}
    (hty : bmType k n = some ty) (hsr : splitRoot k = some (inner, rootF)) :
    (plug inner n).isOp .eq = false ∧
    (match rootF with | .binL _ _ r => r | .binR _ _ l => l | .un .. => plug inner n).isOp .eq
      = false := by
  unfold bmType at hty
  rw [hsr] at hty
  simp only at hty
  split_ifs at hty with h1 h2 h3
  all_goals (simp at h3; exact h3)

theorem bmApply_printable {k k' : Ctx} {n n' : Ex} (h : bmApply k n = .ok (k', n'))
    (hp : Printable (plug k n) = true) : Printable (plug k' n') = true := by
  unfold bmApply at h
  split at h
  rotate_left
  · simp at h
  rename_i ty inner rootF hty hsr
  rw [plug_splitRoot hsr] at hp
  obtain ⟨hroot, hcm, hadd⟩ := bmType_spec hty hsr
  obtain ⟨hs1, hs2⟩ := bmType_sides hty hsr
  simp only at h
  cases rootF with
  | un t o => simp [Frame.isOp] at hroot
  | binL rt ro r =>
    simp [Frame.isOp] at hroot
    subst hroot
    simp only at hs2
    simp [Frame.fill, Printable, printable_of_not_eq hs1, printable_of_not_eq hs2] at hp
    have hnn := noEq_of_plug hp.1
    cases ty <;> simp only at h
    · split at h
      · simp at h
      · rename_i inner' sib hrem
        simp at h; obtain ⟨rfl, rfl⟩ := h
        simp [plug, Printable, NoEq, hp.2, hnn]
        exact noEq_printable (by simpa using removeAddend_noEq hrem (hadd rfl) hp.1)
    · simp at h; obtain ⟨rfl, rfl⟩ := h
      simp [plug, Printable, NoEq, hp.1, hp.2, hnn]
  | binR rt ro l =>
    simp [Frame.isOp] at hroot
    subst hroot
    simp only at hs2
    simp [Frame.fill, Printable, printable_of_not_eq hs1, printable_of_not_eq hs2] at hp
    have hnn := noEq_of_plug hp.2
    cases ty <;> simp only at h
    · split at h
      · simp at h
      · rename_i inner' sib hrem
        simp at h; obtain ⟨rfl, rfl⟩ := h
        simp [plug, Printable, NoEq, hp.1, hnn]
        exact noEq_printable (by simpa using removeAddend_noEq hrem (hadd rfl) hp.2)
    · simp at h; obtain ⟨rfl, rfl⟩ := h
      simp [plug, Printable, NoEq, hp.1, hp.2, hnn]

/-! ### All rules -/

theorem applyRule_printable {r : Rule} {k k' : Ctx} {n n' : Ex} (hc : canApply r k n = true)
    (h : applyRule r k n = .ok (k', n')) (hp : Printable (plug k n) = true) :
    Printable (plug k' n') = true := by
  cases r with
  | associative =>
    obtain ⟨f, rfl, hr⟩ := asApply_repl hc h
    exact hr.plug k' hp
  | commutative p => obtain ⟨rfl, hr⟩ := csApply_repl h; exact hr.plug _ hp
  | constants => obtain ⟨rfl, hr⟩ := caApply_repl h; exact hr.plug _ hp
  | factorOut c => obtain ⟨rfl, hr⟩ := dfApply_repl h; exact hr.plug _ hp
  | distribute => obtain ⟨rfl, hr⟩ := dmApply_repl h; exact hr.plug _ hp
  | inverse => obtain ⟨rfl, hr⟩ := miApply_repl h; exact hr.plug _ hp
  | restate => obtain ⟨rfl, hr⟩ := rsApply_repl h; exact hr.plug _ hp
  | variableMultiply => obtain ⟨rfl, hr⟩ := vmApply_repl h; exact hr.plug _ hp
  | balancedMove => exact bmApply_printable h hp

/-! ### Parser outputs -/

theorem product_noEq (fs : List Ex) (f0 : Ex) (h0 : NoEq f0 = true)
    (hfs : ∀ f ∈ fs, NoEq f = true) : NoEq (G.product f0 fs) = true := by
  unfold G.product
  induction fs generalizing f0 with
  | nil => simpa using h0
  | cons g gs ih =>
    simp only [List.foldl_cons]
    apply ih
    · simp [NoEq, h0, hfs g (by simp)]
    · intro f hf; exact hfs f (by simp [hf])

theorem addE_noEq {ts : List Tok} {e : Ex} (h : G.AddE ts e) : NoEq e = true :=
  G.AddE.rec (motive_1 := fun _ e _ => NoEq e = true)
    (motive_2 := fun _ es _ => ∀ e ∈ es, NoEq e = true)
    (motive_3 := fun _ e _ => NoEq e = true) (motive_4 := fun _ e _ => NoEq e = true)
    (motive_5 := fun _ e _ => NoEq e = true)
    (motive_6 := fun acc _ e _ => NoEq acc = true → NoEq e = true)
    (motive_7 := fun _ e _ => NoEq e = true)
    (motive_8 := fun acc _ e _ => NoEq acc = true → NoEq e = true)
    (motive_9 := fun _ e _ => NoEq e = true)
    (fun t h => by simp [NoEq])
    (fun f o c hf ho hc _ _ _ ih => by simpa [NoEq] using ih)
    (fun o c ho hc _ _ _ ih => ih)
    (fun _ ih => by simpa using ih)
    (fun a b ih ih' => by
      intro e he
      simp at he
      rcases he with rfl | he
      · exact ih
      · exact ih' e he)
    (fun _ ih => product_noEq _ _ (ih _ (by simp)) (fun f hf => ih f (by simp [hf])))
    (fun x hx _ _ init last u f0 fs _ b heq ih ih' => by
      have hall : ∀ f ∈ init ++ [Ex.bin 0 .pow last u], NoEq f = true := by
        intro f hf
        simp at hf
        rcases hf with hf | rfl
        · exact ih f (by simp [hf])
        · simp [NoEq, ih', ih last (by simp)]
      rw [heq] at hall
      exact product_noEq _ _ (hall _ (by simp)) (fun f hf => hall f (by simp [hf])))
    (fun c q h => by simp [NoEq])
    (fun m c q hm h => by simp [NoEq])
    (fun c b q h hb => by simp [NoEq, Ex.isConst])
    (fun m c b q hm h hb => by simp [NoEq, Ex.isConst])
    (fun c q h _ _ a ih => by simp [NoEq, ih])
    (fun m c q hm h _ _ a ih => by simp [NoEq, ih])
    (fun a ih => ih)
    (fun m hm _ _ a ih => by simpa [NoEq] using ih)
    (fun a ih => ih)
    (fun x hx _ _ _ _ a hc a' ih ih' => by simp [NoEq, ih, ih'])
    (fun acc => id)
    (fun d hd _ _ _ _ _ a a' ih ih' => fun hacc => ih' (by simp [NoEq, hacc, ih]))
    (fun m hm _ _ _ a ih => fun hacc => by simp [NoEq, hacc, ih])
    (fun a a' ih ih' => ih' ih)
    (fun acc => id)
    (fun p hp _ _ _ _ _ a a' ih ih' => fun hacc => ih' (by simp [NoEq, hacc, ih]))
    (fun p hp _ _ _ _ _ a a' ih ih' => fun hacc => ih' (by simp [NoEq, hacc, ih]))
    (fun a a' ih ih' => ih' ih)
    h

theorem eqLoop_printable {acc : Ex} {ts : List Tok} {e : Ex} (h : G.EqLoop acc ts e)
    (hacc : Printable acc = true) : Printable e = true := by
  induction h with
  | done acc => exact hacc
  | eq q hq a a' ih =>
    apply ih
    simp [Printable, hacc, noEq_printable (addE_noEq a)]

theorem equalE_printable {ts : List Tok} {e : Ex} (h : G.EqualE ts e) : Printable e = true := by
  cases h with
  | mk a a' => exact eqLoop_printable a' (noEq_printable (addE_noEq a))

end Mathy
