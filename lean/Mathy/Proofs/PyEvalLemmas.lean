/-
Operator-level agreement between the typed evaluator (`Model/PyEval.lean`) and the rational
semantics (`Model/Expr.lean`): wherever the typed operator returns a number, the rational operator
returns the same number.  Used by `Props/C05Agree.lean`.
-/
import Mathy.Model.PyEval
import Mathy.Proofs.Eval
import Mathlib.Tactic.SplitIfs
namespace Mathy

theorem truncInt_intCast (z : Int) : truncInt (z : Rat) = z := by
  unfold truncInt
  split_ifs with h
  · exact Rat.floor_intCast z
  · have : (-(z : Rat)) = ((-z : Int) : Rat) := by push_cast; rfl
    rw [this, Rat.floor_intCast]; simp

theorem toRat?_int {z : Int} {q : Rat} (h : (PyVal.int z).toRat? = some q) : q = z := by
  simp [PyVal.toRat?] at h; exact h.symm

theorem toRat?_flt {x q : Rat} (h : (PyVal.flt x).toRat? = some q) : q = x := by
  simp [PyVal.toRat?] at h; exact h.symm

theorem pyUn_agree (o : Uop) (a v : PyVal) (qa q : Rat) (ha : a.toRat? = some qa)
    (hv : pyUn o a = .ok v) (hq : v.toRat? = some q) : evalUop o qa = .ok q := by
  cases a with
  | nan => simp [PyVal.toRat?] at ha
  | int z =>
    obtain rfl := toRat?_int ha
    cases o <;> simp only [pyUn, pyNeg, pyFact, pySgn, pyAbs] at hv
    · cases hv; obtain rfl := toRat?_int hq; simp [evalUop]
    · split_ifs at hv with hz
      cases hv; obtain rfl := toRat?_int hq
      simp [evalUop, truncInt_intCast, hz]
    · cases hv; obtain rfl := toRat?_int hq
      simp only [evalUop]
      have h1 : ((z : Rat) < 0) ↔ z < 0 := by exact_mod_cast Iff.rfl
      have h2 : (0 < (z : Rat)) ↔ 0 < z := by exact_mod_cast Iff.rfl
      by_cases hz1 : z < 0 <;> by_cases hz2 : 0 < z <;> simp [h1, h2, hz1, hz2]
    · cases hv; obtain rfl := toRat?_int hq
      simp only [evalUop]
      have : ((z : Rat) < 0) ↔ z < 0 := by exact_mod_cast Iff.rfl
      split_ifs <;> simp_all
  | flt x =>
    obtain rfl := toRat?_flt ha
    cases o <;> simp only [pyUn, pyNeg, pyFact, pySgn, pyAbs] at hv
    · cases hv; obtain rfl := toRat?_flt hq; simp [evalUop]
    · split_ifs at hv with hz
      cases hv; obtain rfl := toRat?_int hq
      simp [evalUop, hz]
    · cases hv; obtain rfl := toRat?_int hq
      simp only [evalUop]
      split_ifs <;> simp
    · cases hv; obtain rfl := toRat?_flt hq
      simp [evalUop]

theorem pyPow_agree (a b v : PyVal) (qa qb q : Rat) (ha : a.toRat? = some qa)
    (hb : b.toRat? = some qb) (hv : pyPow a b = .ok v) (hq : v.toRat? = some q) :
    evalPow qa qb = .ok q := by
  have key : ∀ x y : Rat, (if y.den = 1 then
        if 0 ≤ y.num then (.ok (.flt (x ^ y.num.toNat)) : PyRes)
        else if x = 0 then .error .unmodelled else .ok (.flt ((x ^ (-y.num).toNat)⁻¹))
      else .error .unmodelled) = .ok v → evalPow x y = .ok q := by
    intro x y h
    unfold evalPow
    split_ifs at h ⊢ <;> (cases h; obtain rfl := toRat?_flt hq; rfl)
  cases a with
  | nan => simp [PyVal.toRat?] at ha
  | int za =>
    obtain rfl := toRat?_int ha
    cases b with
    | nan => simp [PyVal.toRat?] at hb
    | int zb =>
      obtain rfl := toRat?_int hb
      simp only [pyPow] at hv
      unfold evalPow
      simp only [Rat.den_intCast, Rat.num_intCast, Int.cast_eq_zero, if_true]
      split_ifs at hv ⊢ with h1 h2
      · cases hv; obtain rfl := toRat?_int hq; simp
      · cases hv; obtain rfl := toRat?_flt hq; rfl
    | flt y =>
      obtain rfl := toRat?_flt hb
      simp only [pyPow, PyVal.toRat?] at hv
      exact key _ _ hv
  | flt x =>
    obtain rfl := toRat?_flt ha
    cases b with
    | nan => simp [PyVal.toRat?] at hb
    | int zb =>
      obtain rfl := toRat?_int hb
      simp only [pyPow, PyVal.toRat?] at hv
      exact key _ _ hv
    | flt y =>
      obtain rfl := toRat?_flt hb
      simp only [pyPow, PyVal.toRat?] at hv
      exact key _ _ hv

theorem pyBin_agree (o : Bop) (a b v : PyVal) (qa qb q : Rat) (ha : a.toRat? = some qa)
    (hb : b.toRat? = some qb) (hv : pyBin o a b = .ok v) (hq : v.toRat? = some q) :
    evalBop o qa qb = .ok q := by
  cases o with
  | pow => exact pyPow_agree a b v qa qb q ha hb hv hq
  | div =>
    simp only [pyBin, pyDiv, hb, ha] at hv
    split_ifs at hv with h0
    · cases hv; simp [PyVal.toRat?] at hq
    · cases hv; obtain rfl := toRat?_flt hq; simp [evalBop, h0]
  | eq =>
    simp only [pyBin] at hv
    split_ifs at hv with he
    cases hv
    rw [ha] at hq
    cases hq
    have : qa = qb := by
      cases a <;> cases b <;> simp_all [pyEq, PyVal.toRat?]
    simp [evalBop, this]
  | add =>
    cases a <;> cases b <;> simp [PyVal.toRat?] at ha hb <;> subst ha hb <;>
      simp [pyBin, pyArith, PyVal.toRat?] at hv <;> subst hv <;>
      simp [PyVal.toRat?] at hq <;> subst hq <;> simp [evalBop]
  | sub =>
    cases a <;> cases b <;> simp [PyVal.toRat?] at ha hb <;> subst ha hb <;>
      simp [pyBin, pyArith, PyVal.toRat?] at hv <;> subst hv <;>
      simp [PyVal.toRat?] at hq <;> subst hq <;> simp [evalBop]
  | mul =>
    cases a <;> cases b <;> simp [PyVal.toRat?] at ha hb <;> subst ha hb <;>
      simp [pyBin, pyArith, PyVal.toRat?] at hv <;> subst hv <;>
      simp [PyVal.toRat?] at hq <;> subst hq <;> simp [evalBop]

end Mathy
