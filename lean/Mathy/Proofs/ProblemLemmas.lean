/-
Lemmas for property C17 (`Props/C17.lean`): the token shapes of `Model/Problems.lean` are
derivable in the documented grammar, with a tree that is known well enough to read the like-term
promise off it.
-/
import Mathy.Model.Problems
import Mathy.Spec.Grammar
import Mathy.Proofs.PrintParse
namespace Mathy
namespace Prob
open G PP

/-! ### items -/

def litVal (t : List Char) : Rat := (parseNumber t).getD 0

def numVal (n : PNum) : Rat := if n.neg then -(litVal n.text) else litVal n.text

def baseTree (v : Char) : Option (List Char) → Ex
  | none => .var 0 v
  | some p => .bin 0 .pow (.var 0 v) (.const 0 (litVal p))

/-- the tree the grammar prescribes for an item -/
def itemTree : PItem → Ex
  | .num n => .const 0 (numVal n)
  | .term none v pow => baseTree v pow
  | .term (some n) v pow => .bin 0 .mul (.const 0 (numVal n)) (baseTree v pow)

theorem lit_of_isSome {t : List Char} (h : (parseNumber t).isSome = true) :
    Lit ⟨.constant, t⟩ (litVal t) := by
  refine ⟨rfl, ?_⟩
  unfold litVal
  cases hq : parseNumber t with
  | none => simp [hq] at h
  | some q => rfl

def powToks : Option (List Char) → List Tok
  | some p => [⟨.exponent, ['^']⟩, ⟨.constant, p⟩]
  | none => []

def powOk : Option (List Char) → Bool
  | some p => (parseNumber p).isSome
  | none => true

theorem base_factors (v : Char) (pow : Option (List Char)) (h : powOk pow = true) :
    Factors ([⟨.variable, [v]⟩] ++ powToks pow) (baseTree v pow) := by
  cases pow with
  | none => exact prim_factors (Prim.var ⟨.variable, [v]⟩ rfl)
  | some p =>
    have hv : PrimSeq [(⟨.variable, [v]⟩ : Tok)] ([] ++ [Ex.var 0 v]) :=
      PrimSeq.one (Prim.var ⟨.variable, [v]⟩ rfl)
    exact Factors.pow ⟨.exponent, ['^']⟩ rfl (f0 := .bin 0 .pow (.var 0 v) (.const 0 (litVal p)))
      (fs := []) hv (UnaryE.lit ⟨.constant, p⟩ _ (lit_of_isSome h)) rfl

theorem num_unary (n : PNum) (h : n.ok = true) : UnaryE n.toks (.const 0 (numVal n)) := by
  obtain ⟨neg, text⟩ := n
  cases neg
  · exact UnaryE.lit _ _ (lit_of_isSome h)
  · exact UnaryE.negLit ⟨.minus, ['-']⟩ _ _ rfl (lit_of_isSome h)

theorem num_factors (n : PNum) (h : n.ok = true) {fs : List Tok} {f : Ex} (hf : Factors fs f) :
    UnaryE (n.toks ++ fs) (.bin 0 .mul (.const 0 (numVal n)) f) := by
  obtain ⟨neg, text⟩ := n
  cases neg
  · exact UnaryE.litFactors _ _ (lit_of_isSome h) hf
  · exact UnaryE.negLitFactors ⟨.minus, ['-']⟩ _ _ rfl (lit_of_isSome h) hf

theorem item_unary (it : PItem) (h : it.ok = true) : UnaryE it.toks (itemTree it) := by
  cases it with
  | num n => exact num_unary n h
  | term coef v pow =>
    have hp : powOk pow = true := by
      cases pow <;> simp_all [PItem.ok, powOk]
    have hb := base_factors v pow hp
    cases coef with
    | none =>
      have : (PItem.term none v pow).toks = [⟨.variable, [v]⟩] ++ powToks pow := by
        cases pow <;> rfl
      rw [this]
      exact UnaryE.factors hb
    | some n =>
      have hn : n.ok = true := by
        cases pow <;> simp_all [PItem.ok]
      have : (PItem.term (some n) v pow).toks = n.toks ++ ([⟨.variable, [v]⟩] ++ powToks pow) := by
        cases pow <;> simp [PItem.toks, powToks]
      rw [this]
      exact num_factors n hn hb

theorem item_exp (it : PItem) (h : it.ok = true) : ExpE it.toks (itemTree it) :=
  .unary (item_unary it h)

theorem item_mult (it : PItem) (h : it.ok = true) : MultE it.toks (itemTree it) :=
  exp_mult (item_exp it h)

theorem item_add (it : PItem) (h : it.ok = true) : AddE it.toks (itemTree it) :=
  mult_add (item_mult it h)

theorem num_noeof (n : PNum) : ∀ t ∈ n.toks, t.type ≠ .eof := by
  obtain ⟨neg, text⟩ := n
  intro t ht
  cases neg <;> simp [PNum.toks] at ht
  · subst ht; simp
  · rcases ht with rfl | rfl <;> simp

theorem item_noeof (it : PItem) : ∀ t ∈ it.toks, t.type ≠ .eof := by
  intro t ht
  cases it with
  | num n => exact num_noeof n t ht
  | term coef v pow =>
    simp only [PItem.toks, List.mem_append] at ht
    rcases ht with (ht | ht) | ht
    · cases coef with
      | none => simp at ht
      | some n => exact num_noeof n t ht
    · simp at ht; subst ht; simp
    · cases pow with
      | none => simp at ht
      | some p =>
        simp at ht
        rcases ht with rfl | rfl <;> simp

theorem opr_noeof (o : POpr) : o.tok.type ≠ .eof := by cases o <;> simp [POpr.tok]

/-! ### chains `u₀ op₁ u₁ … opₙ uₙ` of abstract chunks -/

abbrev Chunk := POpr × List Tok × Ex

def chunksToks (cs : List Chunk) : List Tok := cs.flatMap fun c => c.1.tok :: c.2.1

def allPlus (cs : List Chunk) : Bool := cs.all fun c => c.1 == .plus

def sumTree (e0 : Ex) (cs : List Chunk) : Ex := cs.foldl (fun a c => .bin 0 .add a c.2.2) e0

/-- the summands of a tree of additions, in order -/
def leaves : Ex → List Ex
  | .bin _ .add l r => leaves l ++ leaves r
  | e => [e]

theorem leaves_sumTree (cs : List Chunk) : ∀ acc : Ex,
    leaves (sumTree acc cs) = leaves acc ++ cs.flatMap fun c => leaves c.2.2 := by
  induction cs with
  | nil => intro acc; simp [sumTree]
  | cons c cs ih =>
    intro acc
    have : sumTree acc (c :: cs) = sumTree (.bin 0 .add acc c.2.2) cs := rfl
    rw [this, ih]
    simp [leaves]

theorem chain_split : ∀ (cs : List Chunk) (t0 : List Tok) (e0 : Ex), ExpE t0 e0 →
    (∀ c ∈ cs, ExpE c.2.1 c.2.2) →
    ∃ (ts us : List Tok) (m : Ex) (f : Ex → Ex), t0 ++ chunksToks cs = ts ++ us ∧ MultE ts m ∧
      (∀ acc, AddLoop acc us (f acc)) ∧
      (allPlus cs = true → m = e0 ∧ ∀ acc, f acc = sumTree acc cs) := by
  intro cs
  induction cs with
  | nil =>
    intro t0 e0 h0 _
    exact ⟨t0, [], e0, id, by simp [chunksToks], exp_mult h0, fun acc => AddLoop.done acc,
      fun _ => ⟨rfl, fun _ => rfl⟩⟩
  | cons c cs ih =>
    intro t0 e0 h0 hcs
    obtain ⟨o, t1, e1⟩ := c
    have h1 : ExpE t1 e1 := hcs (o, t1, e1) (by simp)
    obtain ⟨ts', us', m', f', heq, hm', hf', hall'⟩ :=
      ih t1 e1 h1 (fun c hc => hcs c (by simp [hc]))
    have htoks : t0 ++ chunksToks ((o, t1, e1) :: cs) = t0 ++ o.tok :: (ts' ++ us') := by
      simp [chunksToks] at heq ⊢
      exact heq
    cases o with
    | times =>
      refine ⟨t0 ++ POpr.times.tok :: ts', us', .bin 0 .mul e0 m', f', ?_, ?_, hf', ?_⟩
      · rw [htoks]; simp
      · exact MultE.mk h0 (MultLoop.mul _ rfl hm')
      · intro h; simp [allPlus] at h
    | plus =>
      refine ⟨t0, POpr.plus.tok :: ts' ++ us', e0, fun acc => f' (.bin 0 .add acc m'), ?_,
        exp_mult h0, ?_, ?_⟩
      · rw [htoks]; simp
      · intro acc
        exact AddLoop.plus _ rfl hm' (hf' _)
      · intro h
        have h' : allPlus cs = true := by simp [allPlus] at h ⊢; exact h
        obtain ⟨hm, hf⟩ := hall' h'
        refine ⟨rfl, fun acc => ?_⟩
        simp only [hf, hm]
        rfl
    | minus =>
      refine ⟨t0, POpr.minus.tok :: ts' ++ us', e0, fun acc => f' (.bin 0 .sub acc m'), ?_,
        exp_mult h0, ?_, ?_⟩
      · rw [htoks]; simp
      · intro acc
        exact AddLoop.minus _ rfl hm' (hf' _)
      · intro h; simp [allPlus] at h

/-- chunks joined by `+ - *` form a sum; if all operators are `+` its summands are those of
the chunks, in order -/
theorem chain_add (cs : List Chunk) (t0 : List Tok) (e0 : Ex) (h0 : ExpE t0 e0)
    (hcs : ∀ c ∈ cs, ExpE c.2.1 c.2.2) :
    ∃ e, AddE (t0 ++ chunksToks cs) e ∧
      (allPlus cs = true → leaves e = leaves e0 ++ cs.flatMap fun c => leaves c.2.2) := by
  obtain ⟨ts, us, m, f, heq, hm, hf, hall⟩ := chain_split cs t0 e0 h0 hcs
  refine ⟨f m, heq ▸ AddE.mk hm (hf m), fun h => ?_⟩
  obtain ⟨h1, h2⟩ := hall h
  rw [h2, h1, leaves_sumTree]

/-! ### flat problems without a group -/

def plainRest (r : List (POpr × PItem)) : List Tok := r.flatMap fun q => q.1.tok :: q.2.toks

def toChunks (r : List (POpr × PItem)) : List Chunk := r.map fun q => (q.1, q.2.toks, itemTree q.2)

theorem chunksToks_toChunks (r : List (POpr × PItem)) : chunksToks (toChunks r) = plainRest r := by
  induction r with
  | nil => rfl
  | cons q r ih =>
    simp only [chunksToks, toChunks, plainRest, List.map_cons, List.flatMap_cons] at ih ⊢
    rw [ih]

theorem chunksToks_append (a b : List Chunk) : chunksToks (a ++ b) = chunksToks a ++ chunksToks b := by
  simp [chunksToks]

theorem plainRest_append (a b : List (POpr × PItem)) :
    plainRest (a ++ b) = plainRest a ++ plainRest b := by
  simp [plainRest]

theorem allPlus_toChunks (r : List (POpr × PItem)) :
    allPlus (toChunks r) = r.all fun q => q.1 == .plus := by
  simp [allPlus, toChunks, List.all_map, Function.comp_def]

theorem leaves_item (it : PItem) : leaves (itemTree it) = [itemTree it] := by
  cases it with
  | num n => rfl
  | term coef v pow => cases coef <;> cases pow <;> rfl

theorem leaves_toChunks (r : List (POpr × PItem)) :
    ((toChunks r).flatMap fun c => leaves c.2.2) = r.map fun q => itemTree q.2 := by
  induction r with
  | nil => rfl
  | cons q r ih =>
    simp only [toChunks, List.map_cons, List.flatMap_cons] at ih ⊢
    rw [ih, leaves_item]
    rfl

theorem toChunks_exp (r : List (POpr × PItem)) (h : ∀ q ∈ r, q.2.ok = true) :
    ∀ c ∈ toChunks r, ExpE c.2.1 c.2.2 := by
  intro c hc
  simp only [toChunks, List.mem_map] at hc
  obtain ⟨q, hq, rfl⟩ := hc
  exact item_exp q.2 (h q hq)

theorem plain_add (it0 : PItem) (r : List (POpr × PItem)) (h0 : it0.ok = true)
    (hr : ∀ q ∈ r, q.2.ok = true) :
    ∃ e, AddE (it0.toks ++ plainRest r) e ∧
      ((r.all fun q => q.1 == .plus) = true →
        leaves e = itemTree it0 :: r.map fun q => itemTree q.2) := by
  obtain ⟨e, he, hl⟩ := chain_add (toChunks r) it0.toks _ (item_exp it0 h0) (toChunks_exp r hr)
  rw [chunksToks_toChunks] at he
  refine ⟨e, he, fun h => ?_⟩
  rw [hl (by rw [allPlus_toChunks]; exact h), leaves_toChunks, leaves_item]
  rfl

/-- a parenthesised group of items as one chunk -/
theorem group_exp (it0 : PItem) (r : List (POpr × PItem)) (h0 : it0.ok = true)
    (hr : ∀ q ∈ r, q.2.ok = true) :
    ∃ e, ExpE (openTok :: (it0.toks ++ plainRest r) ++ [closeTok]) e ∧
      ((r.all fun q => q.1 == .plus) = true →
        leaves e = itemTree it0 :: r.map fun q => itemTree q.2) := by
  obtain ⟨e, he, hl⟩ := plain_add it0 r h0 hr
  exact ⟨e, .unary (prim_unary (Prim.paren openTok closeTok rfl rfl he)), hl⟩

/-! ### the token list of a flat problem, by recursion -/

def gItemToks (g : Option (Nat × Nat)) (i : Nat) (it : PItem) : List Tok :=
  (match g with | some (gs, _) => if gs == i then [openTok] else [] | none => []) ++ it.toks ++
  (match g with | some (_, ge) => if ge == i then [closeTok] else [] | none => [])

def restToks (g : Option (Nat × Nat)) : Nat → List (POpr × PItem) → List Tok
  | _, [] => []
  | k, q :: r => q.1.tok :: gItemToks g k q.2 ++ restToks g (k + 1) r

theorem zip_restToks (p : FlatProblem) : ∀ (r : List (POpr × PItem)) (k : Nat),
    ((r.zipIdx k).flatMap fun q => q.1.1.tok :: p.itemToks (q.2 + 1) q.1.2) =
      restToks p.group (k + 1) r := by
  intro r
  induction r with
  | nil => intro k; rfl
  | cons q r ih =>
    intro k
    rw [List.zipIdx_cons, List.flatMap_cons, ih (k + 1)]
    rfl

theorem toks_eq (p : FlatProblem) :
    p.toks = gItemToks p.group 0 p.first ++ restToks p.group 1 p.rest := by
  unfold FlatProblem.toks
  rw [zip_restToks p p.rest 0]
  rfl

theorem gItem_none (i : Nat) (it : PItem) : gItemToks none i it = it.toks := by
  simp [gItemToks]

theorem gItem_plain {gs ge i : Nat} (it : PItem) (h1 : gs ≠ i) (h2 : ge ≠ i) :
    gItemToks (some (gs, ge)) i it = it.toks := by
  simp [gItemToks, h1, h2]

theorem gItem_open {gs ge : Nat} (it : PItem) (h : gs < ge) :
    gItemToks (some (gs, ge)) gs it = openTok :: it.toks := by
  have : ge ≠ gs := by omega
  simp [gItemToks, this]

theorem gItem_close {gs ge : Nat} (it : PItem) (h : gs < ge) :
    gItemToks (some (gs, ge)) ge it = it.toks ++ [closeTok] := by
  have : gs ≠ ge := by omega
  simp [gItemToks, this]

theorem rest_none : ∀ (r : List (POpr × PItem)) (k : Nat), restToks none k r = plainRest r := by
  intro r
  induction r with
  | nil => intro k; rfl
  | cons q r ih =>
    intro k
    simp only [restToks, gItem_none, ih (k + 1), plainRest, List.flatMap_cons]

theorem rest_after {gs ge : Nat} : ∀ (r : List (POpr × PItem)) (k : Nat), gs < k → ge < k →
    restToks (some (gs, ge)) k r = plainRest r := by
  intro r
  induction r with
  | nil => intro k _ _; rfl
  | cons q r ih =>
    intro k h1 h2
    simp only [restToks, ih (k + 1) (by omega) (by omega), plainRest, List.flatMap_cons]
    rw [gItem_plain q.2 (by omega) (by omega)]

theorem rest_inner {gs ge : Nat} (hg : gs < ge) : ∀ (d : Nat) (r : List (POpr × PItem)) (k : Nat),
    gs < k → ge = k + d → d < r.length →
    ∃ B C, r = B ++ C ∧ B.length = d + 1 ∧
      restToks (some (gs, ge)) k r = plainRest B ++ closeTok :: plainRest C := by
  intro d
  induction d with
  | zero =>
    intro r k h1 h2 h3
    cases r with
    | nil => simp at h3
    | cons q r =>
      refine ⟨[q], r, rfl, rfl, ?_⟩
      have e1 := rest_after (gs := gs) (ge := ge) r (k + 1) (by omega) (by omega)
      have e2 : gItemToks (some (gs, ge)) k q.2 = q.2.toks ++ [closeTok] := by
        have : k = ge := by omega
        rw [this]; exact gItem_close q.2 hg
      simp only [restToks, e1, e2]
      simp [plainRest]
  | succ d ih =>
    intro r k h1 h2 h3
    cases r with
    | nil => simp at h3
    | cons q r =>
      obtain ⟨B, C, hr, hB, ht⟩ := ih r (k + 1) (by omega) (by omega) (by simpa using h3)
      refine ⟨q :: B, C, by simp [hr], by simp [hB], ?_⟩
      simp only [restToks, ht]
      rw [gItem_plain q.2 (by omega) (by omega)]
      simp [plainRest]

theorem rest_before {gs ge : Nat} (hg : gs < ge) : ∀ (s : Nat) (r : List (POpr × PItem)) (k : Nat),
    gs = k + s → s < r.length →
    ∃ A o it R, r = A ++ (o, it) :: R ∧ A.length = s ∧
      restToks (some (gs, ge)) k r =
        plainRest A ++ o.tok :: openTok :: it.toks ++ restToks (some (gs, ge)) (gs + 1) R := by
  intro s
  induction s with
  | zero =>
    intro r k h1 h2
    cases r with
    | nil => simp at h2
    | cons q r =>
      obtain ⟨o, it⟩ := q
      have hk : k = gs := by omega
      subst hk
      refine ⟨[], o, it, r, rfl, rfl, ?_⟩
      simp only [restToks, gItem_open it hg]
      simp [plainRest]
  | succ s ih =>
    intro r k h1 h2
    cases r with
    | nil => simp at h2
    | cons q r =>
      obtain ⟨A, o, it, R, hr, hA, ht⟩ := ih r (k + 1) (by omega) (by simpa using h2)
      refine ⟨q :: A, o, it, R, by simp [hr], by simp [hA], ?_⟩
      simp only [restToks, ht]
      rw [gItem_plain q.2 (by omega) (by omega)]
      simp [plainRest]

/-! ### every well-formed flat problem is a sum -/

theorem flat_derivation (p : FlatProblem) (h : p.ok = true) :
    ∃ e, AddE p.toks e ∧
      ((p.rest.all fun q => q.1 == .plus) = true → leaves e = p.items.map itemTree) := by
  obtain ⟨first, rest, group⟩ := p
  simp only [FlatProblem.ok, Bool.and_eq_true, List.all_eq_true] at h
  obtain ⟨⟨hf, hrest⟩, hgrp⟩ := h
  rw [toks_eq]
  simp only [FlatProblem.items]
  cases group with
  | none =>
    rw [gItem_none, rest_none]
    obtain ⟨e, he, hl⟩ := plain_add first rest hf hrest
    exact ⟨e, he, fun h => by rw [hl h]; simp⟩
  | some g =>
    obtain ⟨gs, ge⟩ := g
    simp only [Bool.and_eq_true, decide_eq_true_eq] at hgrp
    obtain ⟨hlt, hle⟩ := hgrp
    cases gs with
    | zero =>
      obtain ⟨B, C, hr, hB, ht⟩ := rest_inner hlt (ge - 1) rest 1 (by omega) (by omega) (by omega)
      subst hr
      have hBok : ∀ q ∈ B, q.2.ok = true := fun q hq => hrest q (by simp [hq])
      have hCok : ∀ q ∈ C, q.2.ok = true := fun q hq => hrest q (by simp [hq])
      obtain ⟨g, hg, hgl⟩ := group_exp first B hf hBok
      obtain ⟨e, he, hl⟩ := chain_add (toChunks C) _ g hg (toChunks_exp C hCok)
      rw [chunksToks_toChunks] at he
      refine ⟨e, ?_, ?_⟩
      · rw [gItem_open first hlt, ht]
        simpa [List.append_assoc] using he
      · intro hall
        rw [List.all_append, Bool.and_eq_true] at hall
        rw [hl (by rw [allPlus_toChunks]; exact hall.2), hgl hall.1, leaves_toChunks]
        simp [Function.comp_def]
    | succ s =>
      obtain ⟨A, o, it, R, hr, hA, ht⟩ := rest_before hlt s rest 1 (by omega) (by omega)
      subst hr
      have hRlen : (ge - (s + 1) - 1) < R.length := by
        simp at hle; omega
      obtain ⟨B, C, hr, hB, ht2⟩ :=
        rest_inner hlt (ge - (s + 1) - 1) R (s + 1 + 1) (by omega) (by omega) hRlen
      subst hr
      have hAok : ∀ q ∈ A, q.2.ok = true := fun q hq => hrest q (by simp [hq])
      have hitok : it.ok = true := hrest (o, it) (by simp)
      have hBok : ∀ q ∈ B, q.2.ok = true := fun q hq => hrest q (by simp [hq])
      have hCok : ∀ q ∈ C, q.2.ok = true := fun q hq => hrest q (by simp [hq])
      obtain ⟨g, hg, hgl⟩ := group_exp it B hitok hBok
      let grp : Chunk := (o, openTok :: (it.toks ++ plainRest B) ++ [closeTok], g)
      have hcs : ∀ c ∈ toChunks A ++ grp :: toChunks C, ExpE c.2.1 c.2.2 := by
        intro c hc
        rcases List.mem_append.mp hc with hc | hc
        · exact toChunks_exp A hAok c hc
        · rcases List.mem_cons.mp hc with rfl | hc
          · exact hg
          · exact toChunks_exp C hCok c hc
      obtain ⟨e, he, hl⟩ := chain_add (toChunks A ++ grp :: toChunks C) _ _ (item_exp first hf) hcs
      refine ⟨e, ?_, ?_⟩
      · rw [gItem_plain first (by omega) (by omega), ht, ht2]
        rw [chunksToks_append] at he
        have hc : chunksToks (grp :: toChunks C) =
            o.tok :: (openTok :: (it.toks ++ plainRest B) ++ [closeTok]) ++ plainRest C := by
          rw [← chunksToks_toChunks C]; simp [chunksToks, grp]
        rw [hc, chunksToks_toChunks] at he
        simpa [List.append_assoc] using he
      · intro hall
        simp only [List.all_append, List.all_cons, Bool.and_eq_true] at hall
        obtain ⟨hA', ho, hB', hC'⟩ := hall
        have hap : allPlus (toChunks A ++ grp :: toChunks C) = true := by
          have h1 := allPlus_toChunks A
          have h2 := allPlus_toChunks C
          simp only [allPlus] at h1 h2 ⊢
          simp only [List.all_append, List.all_cons, Bool.and_eq_true]
          exact ⟨h1 ▸ hA', ho, h2 ▸ hC'⟩
        rw [hl hap, leaves_item, List.flatMap_append, List.flatMap_cons, leaves_toChunks,
          leaves_toChunks]
        simp only [grp]
        rw [hgl hB']
        simp [Function.comp_def]

theorem flat_noeof (p : FlatProblem) : ∀ t ∈ p.toks, t.type ≠ .eof := by
  have hitem : ∀ i it, ∀ t ∈ p.itemToks i it, t.type ≠ .eof := by
    intro i it t ht
    simp only [FlatProblem.itemToks, List.mem_append] at ht
    rcases ht with (ht | ht) | ht
    · split at ht
      · split at ht <;> simp at ht
        subst ht; simp [openTok]
      · simp at ht
    · exact item_noeof it t ht
    · split at ht
      · split at ht <;> simp at ht
        subst ht; simp [closeTok]
      · simp at ht
  intro t ht
  simp only [FlatProblem.toks, List.mem_append, List.mem_flatMap, List.mem_cons] at ht
  rcases ht with ht | ⟨q, _, rfl | ht⟩
  · exact hitem _ _ t ht
  · exact opr_noeof _
  · exact hitem _ _ t ht

/-! ### the like-term promise -/

/-- a summand: not itself a sum, no sum inside -/
def Atom (e : Ex) : Prop := e.isAddSub = false ∧ sumChildren e = []

theorem sum_leaves : ∀ e : Ex, (∀ l ∈ leaves e, Atom l) →
    (e.isAddSub = true → sumChildren e = leaves e) ∧
    (e.isAddSub = false → sumChildren e = [] ∧ leaves e = [e]) := by
  intro e
  induction e with
  | const t v => intro h; exact ⟨fun hh => (by cases hh), fun _ => ⟨(h _ (by simp [leaves])).2, rfl⟩⟩
  | var t x => intro h; exact ⟨fun hh => (by cases hh), fun _ => ⟨(h _ (by simp [leaves])).2, rfl⟩⟩
  | un t o c _ => intro h; exact ⟨fun hh => (by cases hh), fun _ => ⟨(h _ (by simp [leaves])).2, rfl⟩⟩
  | bin t o l r ihl ihr =>
    intro h
    by_cases ho : o = .add
    · subst ho
      have hl := ihl (fun x hx => h x (by simp [leaves, hx]))
      have hr := ihr (fun x hx => h x (by simp [leaves, hx]))
      refine ⟨fun _ => ?_, fun hh => (by cases hh)⟩
      simp only [sumChildren, leaves, Bop.isAddSub', if_true]
      cases hla : l.isAddSub <;> cases hra : r.isAddSub
      · rw [(hl.2 hla).1, (hl.2 hla).2, (hr.2 hra).1, (hr.2 hra).2]; simp
      · rw [(hl.2 hla).1, (hl.2 hla).2, hr.1 hra]; simp
      · rw [hl.1 hla, (hr.2 hra).1, (hr.2 hra).2]; simp
      · rw [hl.1 hla, hr.1 hra]; simp
    · have hlv : leaves (.bin t o l r) = [.bin t o l r] := by
        cases o <;> first | rfl | exact absurd rfl ho
      have ha := h (.bin t o l r) (by rw [hlv]; simp)
      exact ⟨fun hh => (by rw [ha.1] at hh; cases hh), fun _ => ⟨ha.2, hlv⟩⟩

theorem item_atom (it : PItem) : Atom (itemTree it) := by
  cases it with
  | num n => exact ⟨rfl, rfl⟩
  | term coef v pow => cases coef <;> cases pow <;> exact ⟨rfl, rfl⟩

theorem item_key (coef : Option PNum) (v : Char) (pow : Option (List Char)) :
    getTermKey (itemTree (.term coef v pow)) = some ⟨[v], pow.map litVal⟩ := by
  cases coef <;> cases pow <;> rfl

theorem hasDup_of_sublist (k : TermKey) : ∀ l : List TermKey, [k, k].Sublist l → hasDup l = true := by
  intro l
  induction l with
  | nil => intro h; cases h
  | cons x xs ih =>
    intro h
    cases h with
    | cons _ h => simp [hasDup, ih h]
    | cons_cons _ h =>
      have : k ∈ xs := List.singleton_sublist.mp h
      simp [hasDup, this]

theorem pair_sublist {α : Type} (a b : α) : ∀ (l : List α) (i j : Nat), i < j →
    l[i]? = some a → l[j]? = some b → [a, b].Sublist l := by
  intro l
  induction l with
  | nil => intro i j _ h; simp at h
  | cons x xs ih =>
    intro i j hij hi hj
    cases j with
    | zero => omega
    | succ j =>
      rw [List.getElem?_cons_succ] at hj
      cases i with
      | zero =>
        simp at hi
        subst hi
        exact List.Sublist.cons_cons _ (List.singleton_sublist.mpr (List.mem_of_getElem? hj))
      | succ i =>
        rw [List.getElem?_cons_succ] at hi
        exact List.Sublist.cons _ (ih i j (by omega) hi hj)

theorem getTerms_sum (e : Ex) (h1 : e.isAddSub = true) (h2 : sumChildren e ≠ []) :
    getTerms e = sumChildren e := by
  cases e with
  | bin t o l r =>
    have hm : (Ex.bin t o l r).isOp .mul = false := by
      cases o <;> first | rfl | (simp [Ex.isAddSub, Bop.isAddSub'] at h1)
    unfold getTerms
    simp only [hm]
    cases hs : sumChildren (.bin t o l r) with
    | nil => exact absurd hs h2
    | cons x xs => rfl
  | _ => cases h1

theorem flat_like (p : FlatProblem) (hl : p.promisesLike = true) (e : Ex)
    (hleaves : leaves e = p.items.map itemTree) : hasLikeTerms e = true := by
  simp only [FlatProblem.promisesLike, Bool.and_eq_true, List.any_eq_true, decide_eq_true_eq] at hl
  obtain ⟨_, a, ha, b, hb, ⟨hlt, hsome⟩, hkey⟩ := hl
  rw [List.mem_zipIdx_iff_getElem?] at ha hb
  have hsub : [a.1, b.1].Sublist p.items := pair_sublist _ _ _ _ _ hlt ha hb
  have hsub2 : [itemTree a.1, itemTree b.1].Sublist (leaves e) := by
    rw [hleaves]; exact hsub.map itemTree
  have hatoms : ∀ l ∈ leaves e, Atom l := by
    intro l hl'
    rw [hleaves, List.mem_map] at hl'
    obtain ⟨it, _, rfl⟩ := hl'
    exact item_atom it
  have hsl := sum_leaves e hatoms
  have hadd : e.isAddSub = true := by
    cases hh : e.isAddSub with
    | true => rfl
    | false =>
      have := hsub2.length_le
      rw [(hsl.2 hh).2] at this
      simp at this
  have hsc : sumChildren e = leaves e := hsl.1 hadd
  have hne : sumChildren e ≠ [] := by
    rw [hsc]; intro h0; rw [h0] at hsub2; cases hsub2
  obtain ⟨k, hka, hkb⟩ : ∃ k, getTermKey (itemTree a.1) = some k ∧ getTermKey (itemTree b.1) = some k := by
    obtain ⟨ia, _⟩ := a
    obtain ⟨ib, _⟩ := b
    cases ia with
    | num n => simp [PItem.key] at hsome
    | term ca va pa =>
      cases ib with
      | num n => simp [PItem.key] at hkey
      | term cb vb pb =>
        simp [PItem.key] at hkey
        obtain ⟨rfl, rfl⟩ := hkey
        exact ⟨_, item_key ca va pa, item_key cb va pa⟩
  have hsub3 := hsub2.filterMap getTermKey
  simp only [List.filterMap_cons, hka, hkb, List.filterMap_nil] at hsub3
  unfold hasLikeTerms
  rw [getTerms_sum e hadd hne, hsc, hasDup_of_sublist k _ hsub3]
  rfl

/-! ### binomial products -/

theorem paren_prim (a b : PItem) (ha : a.ok = true) (hb : b.ok = true) :
    ∃ e, Prim (openTok :: (a.toks ++ plusTok :: b.toks) ++ [closeTok]) e := by
  obtain ⟨e, he, _⟩ := plain_add a [(.plus, b)] ha (by simp [hb])
  have : a.toks ++ plainRest [(.plus, b)] = a.toks ++ plusTok :: b.toks := by
    simp [plainRest, POpr.tok, plusTok]
  rw [this] at he
  exact ⟨e, Prim.paren openTok closeTok rfl rfl he⟩

theorem binomial_derivation (p : BinomialProblem) (h : p.ok = true) : ∃ e, AddE p.toks e := by
  cases p with
  | timesBinomial a b c d =>
    simp only [BinomialProblem.ok, Bool.and_eq_true] at h
    obtain ⟨⟨⟨ha, hb⟩, hc⟩, hd⟩ := h
    obtain ⟨e1, h1⟩ := paren_prim a b ha hb
    obtain ⟨e2, h2⟩ := paren_prim c d hc hd
    have hf := Factors.plain (PrimSeq.cons h1 (PrimSeq.one h2))
    refine ⟨product e1 [e2], ?_⟩
    have := mult_add (exp_mult (.unary (.factors hf)))
    simpa [BinomialProblem.toks, List.append_assoc] using this
  | timesMonomial a b c =>
    simp only [BinomialProblem.ok, Bool.and_eq_true] at h
    obtain ⟨⟨ha, hb⟩, hc⟩ := h
    obtain ⟨e1, h1⟩ := paren_prim a b ha hb
    have hm := MultE.mk (.unary (prim_unary h1))
      (MultLoop.mul ⟨.multiply, ['*']⟩ rfl (item_mult c hc))
    refine ⟨.bin 0 .mul e1 (itemTree c), ?_⟩
    have := mult_add hm
    simpa [BinomialProblem.toks, List.append_assoc] using this

theorem binomial_noeof (p : BinomialProblem) : ∀ t ∈ p.toks, t.type ≠ .eof := by
  intro t ht
  cases p with
  | timesBinomial a b c d =>
    simp only [BinomialProblem.toks, List.mem_append, List.mem_singleton] at ht
    rcases ht with ((((((((rfl | ht) | rfl) | ht) | rfl) | rfl) | ht) | rfl) | ht) | rfl
    all_goals first
      | exact item_noeof _ t ht
      | simp [openTok, closeTok, plusTok]
  | timesMonomial a b c =>
    simp only [BinomialProblem.toks, List.mem_append, List.mem_singleton] at ht
    rcases ht with (((((rfl | ht) | rfl) | ht) | rfl) | rfl) | ht
    all_goals first
      | exact item_noeof _ t ht
      | simp [openTok, closeTok, plusTok]

theorem add_equal {ts : List Tok} {e : Ex} (h : AddE ts e) : EqualE ts e := by
  simpa using EqualE.mk h (EqLoop.done _)

end Prob
end Mathy
