/-
`DistributiveFactorOutRule.get_type` / `can_apply_to` (translated from the live source) agree with
the model's `dfType` / `dfCan` on every tree: assembly of the case lemmas.
-/
import Mathy.Proofs.PySrcAgreeDF2
import Mathy.Proofs.PySrcAgreeDF3
namespace Mathy.SrcAgree
open Mathy.Py Mathy.Gen.Src

/-- arrangement name AND the two terms -/
theorem df_step_agree (k : Ctx) (n : Ex) :
    DistributiveFactorOutRule_get_type (some ⟨k, n⟩)
      = (dfStep n).map (fun s => (DFType.pyName s.1, some s.2.1.2, some s.2.2.1.2)) := by
  change DFAgree k n
  rcases n with ⟨t, v⟩ | ⟨t, x⟩ | ⟨t, uo, c⟩ | ⟨t, o, l, r⟩
  · rfl
  · rfl
  · rfl
  · cases o <;> try rfl
    rcases l with ⟨lt, lv⟩ | ⟨lt, lx⟩ | ⟨lt, luo, lc⟩ | ⟨lt, lo, ll, lr⟩
    · exact df_l_const ..
    · exact df_l_var ..
    · exact df_l_un ..
    · cases lo
      · rcases lr with ⟨lrt, lrv⟩ | ⟨lrt, lrx⟩ | ⟨lrt, lruo, lrc⟩ | ⟨lrt, lro, lrl, lrr⟩
        · exact df_l_add_const ..
        · exact df_l_add_var ..
        · exact df_l_add_un ..
        · cases lro
          · exact df_l_add_add ..
          · exact df_l_add_sub ..
          · exact df_l_add_mul ..
          · exact df_l_add_div ..
          · exact df_l_add_pow ..
          · exact df_l_add_eq ..
      · exact df_l_sub ..
      · exact df_l_mul ..
      · exact df_l_div ..
      · exact df_l_pow ..
      · exact df_l_eq ..

theorem df_type_agree (k : Ctx) (n : Ex) :
    (DistributiveFactorOutRule_get_type (some ⟨k, n⟩)).map (·.1) = (dfType n).map DFType.pyName := by
  rw [df_step_agree, dfType]
  cases dfStep n <;> rfl

theorem df_ok_aux (constants : Bool) (v1 v2 : Option Char) (f : Option FactorResult) :
    (if (constants == false && v1.isNone && v2.isNone) = true then false
      else
        if (!f.isSome) = true then false
        else if (numEq (frBest f) 1 && !(frVar f).isSome && !numTruthy (frExp f)) = true then false else true) =
      (if (decide (constants = false) && v1.isNone && v2.isNone) = true then false
      else
        match f with
        | none => false
        | some f => !(f.best == 1 && f.comVar.isNone && (f.comExp.isNone || f.comExp == some 0))) := by
  have hb : ∀ (x y : Rat), (x == y) = decide (x = y) := fun x y => by by_cases h : x = y <;> simp [h]
  cases constants <;> cases v1 <;> cases v2 <;> rcases f with _ | ⟨b, fl, fr, cv, ce, le, re, lv, rv⟩ <;>
    simp [frBest, frVar, frExp, numEq, numTruthy]
  all_goals (cases cv <;> rcases ce with _ | q <;> simp [hb])

theorem df_can_agree (constants : Bool) (k : Ctx) (n : Ex) :
    DistributiveFactorOutRule_can_apply_to constants (some ⟨k, n⟩) = dfCan constants n := by
  unfold DistributiveFactorOutRule_can_apply_to dfCan
  rw [df_step_agree]
  rcases dfStep n with _ | ⟨ty, ⟨ln, lt⟩, ⟨rn, rt⟩, wrap⟩
  · rfl
  · simp only [Option.map_some, Option.isNone_some, Bool.false_eq_true, if_false, tupLeft, tupRight, termVar,
      Option.bind_some, pyFactorAddTermsEx, dfFactorOk]
    exact df_ok_aux constants lt.var rt.var (factorAddTermsEx lt rt)

end Mathy.SrcAgree
