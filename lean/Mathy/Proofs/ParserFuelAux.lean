/-
Fuel adequacy of the parser model: a call `parseX fuel ts` with `8 * ts.length + c_X ≤ fuel`
never answers `PErr.fuel`.  Ranks: function 1, factorsLoop 2, factors 3, unary 4, exponent 5,
mult 6, add 7, equal 8; the three operator loops 1.  Every call on the same list goes to a
strictly smaller rank, every other call is on a strictly shorter list (8 more units of budget).
-/
import Mathy.Proofs.ParserSound
import Mathy.Proofs.ParserCompleteAux
namespace Mathy
namespace PF

/-! ### consumption facts -/

theorem eat_ne_fuel (ty : TT) (ts : List Tok) : eat ty ts ≠ .error .fuel := by
  unfold eat
  split
  · simp
  · cases ts with
    | nil => simp [advance]
    | cons t tl =>
      simp only [advance]
      split <;> simp

theorem eat_len {ty : TT} {ts ts' : List Tok} (h : eat ty ts = .ok ts') :
    ts.length = ts'.length + 1 := by
  obtain ⟨t, rfl, -⟩ := PS.eat_ok h
  simp

theorem len_of_consumes {inp rest : List Tok} {P : List Tok → Prop}
    (h : PS.Consumes inp rest P) (hne : ∀ ts, P ts → ts ≠ []) : rest.length < inp.length := by
  obtain ⟨ts, rfl, -, hp⟩ := h
  have := hne ts hp
  cases ts with
  | nil => exact absurd rfl this
  | cons t tl => simp; omega

theorem lt_add {n inp e rest} (h : parseAdd n inp = .ok (e, rest)) :
    rest.length < inp.length :=
  len_of_consumes ((PS.ih_all n).add _ _ _ h) fun _ hp => (PC.hd_AddE hp).ne_nil

theorem lt_mult {n inp e rest} (h : parseMult n inp = .ok (e, rest)) :
    rest.length < inp.length :=
  len_of_consumes ((PS.ih_all n).mult _ _ _ h) fun _ hp => (PC.hd_MultE hp.1).ne_nil

theorem lt_exp {n inp e rest} (h : parseExponent n inp = .ok (e, rest)) :
    rest.length < inp.length :=
  len_of_consumes ((PS.ih_all n).exp _ _ _ h) fun _ hp => (PC.hd_ExpE hp).ne_nil

theorem lt_unary {n inp e rest} (h : parseUnary n inp = .ok (e, rest)) :
    rest.length < inp.length :=
  len_of_consumes ((PS.ih_all n).unary _ _ _ h) fun _ hp => (PC.hd_UnaryE hp.1).ne_nil

theorem lt_factors {n inp e rest} (h : parseFactors n inp = .ok (e, rest)) :
    rest.length < inp.length :=
  len_of_consumes ((PS.ih_all n).factors _ _ _ h) fun _ hp => (PC.hd_Factors hp.1).ne_nil

theorem lt_fn {n inp e rest} (hf : headType inp = .function)
    (h : parseFunction n inp = .ok (e, rest)) : rest.length < inp.length :=
  len_of_consumes ((PS.ih_all n).fn _ _ _ hf h) fun _ hp => (PC.hd_Prim hp).ne_nil

/-! ### the simultaneous statement at fuel `n` -/

structure FH (n : Nat) : Prop where
  fn : ∀ ts, 8 * ts.length + 1 ≤ n → parseFunction n ts ≠ .error .fuel
  fl : ∀ acc ts, 8 * ts.length + 2 ≤ n → factorsLoop n acc ts ≠ .error .fuel
  factors : ∀ ts, 8 * ts.length + 3 ≤ n → parseFactors n ts ≠ .error .fuel
  unary : ∀ ts, 8 * ts.length + 4 ≤ n → parseUnary n ts ≠ .error .fuel
  exp : ∀ ts, 8 * ts.length + 5 ≤ n → parseExponent n ts ≠ .error .fuel
  mult : ∀ ts, 8 * ts.length + 6 ≤ n → parseMult n ts ≠ .error .fuel
  multL : ∀ acc ts, 8 * ts.length + 1 ≤ n → multLoop n acc ts ≠ .error .fuel
  add : ∀ ts, 8 * ts.length + 7 ≤ n → parseAdd n ts ≠ .error .fuel
  addL : ∀ acc ts, 8 * ts.length + 1 ≤ n → addLoop n acc ts ≠ .error .fuel

theorem fh_zero : FH 0 := by
  constructor <;> intros <;> omega

section step
variable {n : Nat} (ih : FH n)
include ih

theorem add_step (ts : List Tok) (hb : 8 * ts.length + 7 ≤ n + 1) :
    parseAdd (n + 1) ts ≠ .error .fuel := by
  intro h
  rw [parseAdd] at h
  split at h
  · simp at h
  split at h
  · rename_i e he
    injection h with h; subst h
    exact ih.mult _ (by omega) he
  · rename_i e0 mid h1
    have := lt_mult h1
    exact ih.addL _ _ (by omega) h

theorem addL_step (acc : Ex) (ts : List Tok) (hb : 8 * ts.length + 1 ≤ n + 1) :
    addLoop (n + 1) acc ts ≠ .error .fuel := by
  intro h
  rw [addLoop] at h
  split at h
  · split at h
    · rename_i e he
      injection h with h; subst h
      exact eat_ne_fuel _ _ he
    rename_i mid heat
    have hl := eat_len heat
    split at h
    rotate_left
    · simp at h
    split at h
    · rename_i e he
      injection h with h; subst h
      exact ih.mult _ (by omega) he
    · rename_i r mid' h1
      have := lt_mult h1
      exact ih.addL _ _ (by omega) h
  · simp at h

theorem mult_step (ts : List Tok) (hb : 8 * ts.length + 6 ≤ n + 1) :
    parseMult (n + 1) ts ≠ .error .fuel := by
  intro h
  rw [parseMult] at h
  split at h
  · simp at h
  split at h
  · rename_i e he
    injection h with h; subst h
    exact ih.exp _ (by omega) he
  · rename_i e0 mid h1
    have := lt_exp h1
    exact ih.multL _ _ (by omega) h

theorem multL_step (acc : Ex) (ts : List Tok) (hb : 8 * ts.length + 1 ≤ n + 1) :
    multLoop (n + 1) acc ts ≠ .error .fuel := by
  intro h
  rw [multLoop] at h
  split at h
  · split at h
    · rename_i e he
      injection h with h; subst h
      exact eat_ne_fuel _ _ he
    rename_i mid heat
    have hl := eat_len heat
    split at h
    rotate_left
    · simp at h
    split at h
    · rename_i e he
      injection h with h; subst h
      split at he
      · exact ih.exp _ (by omega) he
      · exact ih.mult _ (by omega) he
    · rename_i r mid' h1
      have : mid'.length < mid.length := by
        split at h1
        · exact lt_exp h1
        · exact lt_mult h1
      exact ih.multL _ _ (by omega) h
  · simp at h

theorem exp_step (ts : List Tok) (hb : 8 * ts.length + 5 ≤ n + 1) :
    parseExponent (n + 1) ts ≠ .error .fuel := by
  intro h
  rw [parseExponent] at h
  split at h
  · simp at h
  split at h
  · rename_i e he
    injection h with h; subst h
    exact ih.unary _ (by omega) he
  rename_i b mid h1
  have := lt_unary h1
  split at h
  · split at h
    · rename_i e he
      injection h with h; subst h
      exact eat_ne_fuel _ _ he
    rename_i mid' heat
    have hl := eat_len heat
    split at h
    · simp at h
    split at h
    · rename_i e he
      injection h with h; subst h
      exact ih.unary _ (by omega) he
    · simp at h
  · simp at h

theorem fn_step (ts : List Tok) (hb : 8 * ts.length + 1 ≤ n + 1) :
    parseFunction (n + 1) ts ≠ .error .fuel := by
  intro h
  rw [parseFunction] at h
  split at h
  · rename_i e he
    injection h with h; subst h
    exact eat_ne_fuel _ _ he
  rename_i m1 heat1
  have hl1 := eat_len heat1
  split at h
  · rename_i e he
    injection h with h; subst h
    exact eat_ne_fuel _ _ he
  rename_i m2 heat2
  have hl2 := eat_len heat2
  split at h
  · rename_i e he
    injection h with h; subst h
    exact ih.add _ (by omega) he
  rename_i a m3 h1
  split at h
  · rename_i e he
    injection h with h; subst h
    exact eat_ne_fuel _ _ he
  · simp at h

theorem fl_step (acc : List Ex) (ts : List Tok) (hb : 8 * ts.length + 2 ≤ n + 1) :
    factorsLoop (n + 1) acc ts ≠ .error .fuel := by
  intro h
  rw [factorsLoop.eq_def] at h
  simp only at h
  split at h
  · rename_i e hstep
    injection h with h; subst h
    split at hstep
    · split at hstep
      · rename_i e he
        injection hstep with h; subst h
        exact eat_ne_fuel _ _ he
      · simp at hstep
    · exact ih.fn _ (by omega) hstep
    · split at hstep
      · rename_i e he
        injection hstep with h; subst h
        exact eat_ne_fuel _ _ he
      rename_i m heat
      have hl := eat_len heat
      split at hstep
      · rename_i e he
        injection hstep with h; subst h
        exact ih.add _ (by omega) he
      split at hstep
      · rename_i e he
        injection hstep with h; subst h
        exact eat_ne_fuel _ _ he
      · simp at hstep
    · simp at hstep
  rename_i f mid hstep
  have hlt : mid.length < ts.length := by
    split at hstep
    · split at hstep
      · simp at hstep
      rename_i m heat
      have hl := eat_len heat
      injection hstep with hstep; injection hstep with h1 h2; subst h2
      omega
    · exact lt_fn rfl hstep
    · split at hstep
      · simp at hstep
      rename_i m heat
      have hl := eat_len heat
      split at hstep
      · simp at hstep
      rename_i a m3 h1
      have := lt_add h1
      split at hstep
      · simp at hstep
      rename_i m4 heat3
      have hl3 := eat_len heat3
      injection hstep with hstep; injection hstep with h1 h2; subst h2
      omega
    · simp at hstep
  split at h
  · exact ih.fl _ _ (by omega) h
  · simp at h

theorem factors_step (ts : List Tok) (hb : 8 * ts.length + 3 ≤ n + 1) :
    parseFactors (n + 1) ts ≠ .error .fuel := by
  intro h
  rw [parseFactors] at h
  split at h
  · rename_i e he
    injection h with h; subst h
    exact ih.fl _ _ (by omega) he
  rename_i rev mid hfl
  have hle : mid.length ≤ ts.length := by
    obtain ⟨ts', rfl, -⟩ := (PS.ih_all n).fl _ _ _ _ hfl
    simp
  split at h
  · simp at h
  rename_i last before
  simp only at h
  split at h
  · rename_i e hpow
    injection h with h; subst h
    split at hpow
    · split at hpow
      · rename_i e he
        injection hpow with h; subst h
        exact eat_ne_fuel _ _ he
      rename_i m heat
      have hl := eat_len heat
      split at hpow
      · simp at hpow
      split at hpow
      · rename_i e he
        injection hpow with h; subst h
        exact ih.unary _ (by omega) he
      · simp at hpow
    · simp at hpow
  split at h
  · simp at h
  · simp at h

theorem unary_step (ts0 : List Tok) (hb : 8 * ts0.length + 4 ≤ n + 1) :
    parseUnary (n + 1) ts0 ≠ .error .fuel := by
  intro h
  rw [parseUnary] at h
  split at h
  · rename_i e he
    injection h with h; subst h
    split at he
    · exact eat_ne_fuel _ _ he
    · simp at he
  rename_i ts1 hneg
  have hl1 : ts1.length ≤ ts0.length := by
    split at hneg
    · have := eat_len hneg; omega
    · injection hneg with hneg; subst hneg; exact Nat.le_refl _
  split at h
  · simp at h
  simp only at h
  split at h
  · rename_i e hwc
    injection h with h; subst h
    split at hwc
    · split at hwc
      · simp at hwc
      split at hwc
      · rename_i e he
        injection hwc with h; subst h
        exact eat_ne_fuel _ _ he
      · simp at hwc
    · simp at hwc
  rename_i c negate ts2 hwc
  have hl2 : ts2.length ≤ ts1.length := by
    split at hwc
    · split at hwc
      · simp at hwc
      split at hwc
      · simp at hwc
      rename_i ts' heat
      have := eat_len heat
      injection hwc with hwc; injection hwc with a hwc; injection hwc with b d
      subst d; omega
    · injection hwc with hwc; injection hwc with a hwc; injection hwc with b d
      subst d; exact Nat.le_refl _
  split at h
  · split at h
    · split at h
      · rename_i e he
        injection h with h; subst h
        exact ih.factors _ (by omega) he
      · simp at h
    · split at h
      · split at h
        · rename_i e he
          injection h with h; subst h
          exact eat_ne_fuel _ _ he
        · simp at h
      · split at h
        · rename_i e he
          injection h with h; subst h
          exact ih.factors _ (by omega) he
        · simp at h
  · split at h
    · simp at h
    · simp at h

end step

theorem fh_all : ∀ n, FH n
  | 0 => fh_zero
  | n + 1 =>
    have ih := fh_all n
    { add := add_step ih, addL := addL_step ih, mult := mult_step ih, multL := multL_step ih,
      exp := exp_step ih, unary := unary_step ih, fl := fl_step ih, factors := factors_step ih,
      fn := fn_step ih }

theorem equalLoop_ne_fuel : ∀ (n : Nat) (acc : Ex) (ts : List Tok), 8 * ts.length + 1 ≤ n →
    equalLoop n acc ts ≠ .error .fuel
  | 0, _, _, hb => by omega
  | n + 1, acc, ts, hb => by
    intro h
    rw [equalLoop] at h
    split at h
    · split at h
      · rename_i e he
        injection h with h; subst h
        exact eat_ne_fuel _ _ he
      rename_i mid heat
      have hl := eat_len heat
      split at h
      rotate_left
      · simp at h
      split at h
      · rename_i e he
        injection h with h; subst h
        exact (fh_all n).add _ (by omega) he
      · rename_i r mid' h1
        have := lt_add h1
        exact equalLoop_ne_fuel n _ _ (by omega) h
    · simp at h

theorem parseEqual_ne_fuel (n : Nat) (ts : List Tok) (hb : 8 * ts.length + 8 ≤ n) :
    parseEqual n ts ≠ .error .fuel := by
  cases n with
  | zero => omega
  | succ n =>
    intro h
    rw [parseEqual] at h
    split at h
    · simp at h
    split at h
    · rename_i e he
      injection h with h; subst h
      exact (fh_all n).add _ (by omega) he
    · rename_i e0 mid h1
      have := lt_add h1
      exact equalLoop_ne_fuel n _ _ (by omega) h

end PF

theorem parseToks_ne_fuel' (ts : List Tok) : parseToks ts ≠ .error .fuel := by
  intro h
  unfold parseToks at h
  split at h
  · simp at h
  split at h
  · rename_i e he
    injection h with h; subst h
    exact PF.parseEqual_ne_fuel _ _ (by unfold parseFuel; omega) he
  · split at h <;> simp at h

end Mathy
