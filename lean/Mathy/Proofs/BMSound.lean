/-
Soundness of balanced move: the rewritten equation holds exactly when the original does.
-/
import Mathy.Proofs.Terms
import Mathy.Proofs.RulesSound
namespace Mathy
set_option maxHeartbeats 1000000

theorem res_add_comm (X Y : Res) : Res.bin .add X Y = Res.bin .add Y X := by
  rcases X with (_|_)|x <;> rcases Y with (_|_)|y <;> simp [Res.bin, evalBop, Bad.worse, add_comm]

theorem res_add_assoc (X Y Z : Res) :
    Res.bin .add (Res.bin .add X Y) Z = Res.bin .add X (Res.bin .add Y Z) := by
  rcases X with (_|_)|x <;> rcases Y with (_|_)|y <;> rcases Z with (_|_)|z <;>
    simp [Res.bin, evalBop, Bad.worse, add_assoc]

/-- sum of the siblings hanging off an all-addition context -/
def ctxSum (env : Env) : Ctx → Res
  | [] => .ok 0
  | .binL _ _ r :: fs => Res.bin .add (eval env r) (ctxSum env fs)
  | .binR _ _ l :: fs => Res.bin .add (eval env l) (ctxSum env fs)
  | .un _ _ :: fs => ctxSum env fs

theorem res_add_zero (X : Res) : Res.bin .add X (.ok 0) = X := by
  rcases X with (_|_)|x <;> simp [Res.bin, evalBop]

theorem eval_plug_allAdd (env : Env) (k : Ctx) (e : Ex) (h : allAdd k = true) :
    eval env (plug k e) = Res.bin .add (eval env e) (ctxSum env k) := by
  induction k generalizing e with
  | nil => simp [plug, ctxSum, res_add_zero]
  | cons f fs ih =>
    simp [allAdd] at h
    obtain ⟨hf, hfs⟩ := h
    cases f with
    | binL t o r =>
      simp [Frame.isOp] at hf; subst hf
      simp only [plug, Frame.fill, ctxSum]
      rw [ih _ hfs]; simp only [eval]; rw [res_add_assoc]
    | binR t o l =>
      simp [Frame.isOp] at hf; subst hf
      simp only [plug, Frame.fill, ctxSum]
      rw [ih _ hfs]; simp only [eval]
      rw [res_add_comm (eval env l) (eval env e), res_add_assoc]
    | un t o => simp [Frame.isOp] at hf

theorem plug_splitRoot {k inner : Ctx} {rootF : Frame} (h : splitRoot k = some (inner, rootF)) (e : Ex) :
    plug k e = rootF.fill (plug inner e) := by
  induction k generalizing inner e with
  | nil => simp [splitRoot] at h
  | cons f fs ih =>
    cases fs with
    | nil =>
      simp [splitRoot] at h
      obtain ⟨rfl, rfl⟩ := h
      simp [plug]
    | cons g gs =>
      simp only [splitRoot] at h
      split at h
      · rename_i inner' root' hsr
        simp at h
        obtain ⟨rfl, rfl⟩ := h
        simp only [plug]
        have := ih hsr (f.fill e)
        simpa [plug] using this
      · simp at h

/-! ### result-level statements -/

theorem r_bm_div_l (S R : Res) (v : Rat) (hv : v ≠ 0) :
    RHolds (Res.bin .eq S R) (Res.bin .eq (Res.bin .div S (.ok v)) (Res.bin .div R (.ok v))) := by
  rcases S with (_|_)|s <;> rcases R with (_|_)|r <;> simp [RHolds, Res.bin, evalBop, Bad.worse, hv]
  by_cases h : s = r
  · simp [h]
  · simp [h, div_left_inj' hv]

theorem r_bm_add_l (N T R : Res) :
    RHolds (Res.bin .eq (Res.bin .add N T) R) (Res.bin .eq T (Res.bin .sub R N)) := by
  rcases N with (_|_)|n <;> rcases T with (_|_)|s <;> rcases R with (_|_)|r <;>
    simp [RHolds, Res.bin, evalBop, Bad.worse]
  by_cases h : n + s = r
  · have : s = r - n := by linarith
    simp [h, this]
  · have : ¬ s = r - n := by intro h'; apply h; linarith
    simp [h, this]

theorem r_bm_add_r (N T L : Res) :
    RHolds (Res.bin .eq L (Res.bin .add N T)) (Res.bin .eq (Res.bin .sub L N) T) := by
  rcases N with (_|_)|n <;> rcases T with (_|_)|s <;> rcases L with (_|_)|l <;>
    simp [RHolds, Res.bin, evalBop, Bad.worse]
  by_cases h : l = n + s
  · have : l - n = s := by linarith
    simp [h, this]
  · have : ¬ l - n = s := by intro h'; apply h; linarith
    simp [h, this]

/-! ### The rule -/

theorem removeAddend_spec {inner inner' : Ctx} {sib : Ex} (env : Env)
    (h : removeAddend inner = some (inner', sib)) (ha : allAdd inner = true) :
    allAdd inner' = true ∧
    ctxSum env inner = Res.bin .add (eval env sib) (ctxSum env inner') := by
  unfold removeAddend at h
  split at h
  · simp at h; obtain ⟨rfl, rfl⟩ := h
    simp [allAdd] at ha
    exact ⟨ha.2, rfl⟩
  · simp at h; obtain ⟨rfl, rfl⟩ := h
    simp [allAdd] at ha
    exact ⟨ha.2, rfl⟩
  · simp at h

theorem bmType_spec {k inner : Ctx} {rootF : Frame} {n : Ex} {ty : BMType}
    (hty : bmType k n = some ty) (hsr : splitRoot k = some (inner, rootF)) :
    rootF.isOp .eq = true ∧
    (ty = .constOfMultiply → ∃ t v, n = .const t v ∧ v ≠ 0) ∧
    (ty = .addition → allAdd inner = true) := by
  unfold bmType at hty
  rw [hsr] at hty
  simp only at hty
  cases n with
  | const t v =>
    split_ifs at hty <;> simp_all
    all_goals (first | (subst hty; simp_all) | (obtain ⟨hv, rfl⟩ := hty; simp_all))
  | var t x =>
    split_ifs at hty <;> simp_all [Ex.isConst]
    all_goals (first | (subst hty; simp_all) | (obtain ⟨hv, rfl⟩ := hty; simp_all))
  | un t o c =>
    split_ifs at hty <;> simp_all [Ex.isConst]
    all_goals (first | (subst hty; simp_all) | (obtain ⟨hv, rfl⟩ := hty; simp_all))
  | bin t o l r =>
    split_ifs at hty <;> simp_all [Ex.isConst]
    all_goals (first | (subst hty; simp_all) | (obtain ⟨hv, rfl⟩ := hty; simp_all))

/-- Balanced move preserves the truth of the equation at every assignment. -/
theorem bmApply_sound {k k' : Ctx} {n n' : Ex}
    (h : bmApply k n = .ok (k', n')) : HoldsRefines (plug k n) (plug k' n') := by
  unfold bmApply at h
  split at h
  rotate_left
  · simp at h
  rename_i ty inner rootF hty hsr
  rw [plug_splitRoot hsr]
  obtain ⟨hroot, hcm, hadd⟩ := bmType_spec hty hsr
  simp only at h
  cases ty with
  | constOfMultiply =>
    obtain ⟨t, v, rfl, hv⟩ := hcm rfl
    simp only at h
    cases rootF with
    | un t o => simp [Frame.isOp] at hroot
    | binL rt ro r =>
      simp [Frame.isOp] at hroot; subst hroot
      simp at h
      obtain ⟨rfl, rfl⟩ := h
      intro env
      simp only [plug, Frame.fill, eval, eval_clone, Ex.clone]
      exact r_bm_div_l _ _ _ hv
    | binR rt ro l =>
      simp [Frame.isOp] at hroot; subst hroot
      simp at h
      obtain ⟨rfl, rfl⟩ := h
      intro env
      simp only [plug, Frame.fill, eval, eval_clone, Ex.clone]
      exact r_bm_div_l _ _ _ hv
  | addition =>
    have hadd := hadd rfl
    simp only at h
    split at h
    · simp at h
    rename_i inner' sib hrem
    cases rootF with
    | un t o => simp [Frame.isOp] at hroot
    | binL rt ro r =>
      simp [Frame.isOp] at hroot; subst hroot
      simp at h
      obtain ⟨rfl, rfl⟩ := h
      intro env
      obtain ⟨ha', hsum⟩ := removeAddend_spec env hrem hadd
      simp only [plug, Frame.fill, eval, eval_clone]
      rw [eval_plug_allAdd env inner n hadd, eval_plug_allAdd env inner' sib ha', hsum]
      exact r_bm_add_l _ _ _
    | binR rt ro l =>
      simp [Frame.isOp] at hroot; subst hroot
      simp at h
      obtain ⟨rfl, rfl⟩ := h
      intro env
      obtain ⟨ha', hsum⟩ := removeAddend_spec env hrem hadd
      simp only [plug, Frame.fill, eval, eval_clone]
      rw [eval_plug_allAdd env inner n hadd, eval_plug_allAdd env inner' sib ha', hsum]
      exact r_bm_add_r _ _ _

end Mathy
