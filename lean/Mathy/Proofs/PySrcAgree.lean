/-
The model's rule classifiers are the repository's (translated source).

`Gen/PySrc.lean` is regenerated on every run from the live Python source by `harness/py2lean.py`
(statement-by-statement translation over `Model/PyRt.lean`).  Each theorem below equates one
generated definition with the corresponding function of the hand-written model, for ALL inputs.
-/
import Mathy.Gen.PySrcRules
import Mathy.Model.Rules
namespace Mathy.SrcAgree
open Mathy.Py Mathy.Gen.Src

/-! ### rule classifiers -/

theorem associative_can_agree (k : Ctx) (n : Ex) :
    AssociativeSwapRule_can_apply_to (some ⟨k, n⟩) = asCan k n := by
  cases k with
  | nil => cases n with
    | bin t o l r => cases o <;> rfl
    | _ => rfl
  | cons f k' =>
    cases f with
    | un ft fo => cases n with
      | bin t o l r => cases o <;> cases fo <;> rfl
      | _ => cases fo <;> rfl
    | binL ft p fr => cases n with
      | bin t o l r => cases o <;> cases p <;> rfl
      | _ => cases p <;> rfl
    | binR ft p fl => cases n with
      | bin t o l r => cases o <;> cases p <;> rfl
      | _ => cases p <;> rfl

theorem distribute_can_agree (k : Ctx) (n : Ex) :
    DistributiveMultiplyRule_can_apply_to (some ⟨k, n⟩) = dmCan n := by
  cases n with
  | bin t o l r =>
    cases o <;> try rfl
    cases l with
    | bin lt lo ll lr =>
      cases lo <;> cases r with
      | bin rt ro rl rr => cases ro <;> rfl
      | _ => rfl
    | _ =>
      cases r with
      | bin rt ro rl rr => cases ro <;> rfl
      | _ => rfl
  | _ => rfl

/-- the strings `MultiplicativeInverseRule.get_type` returns -/
def miPyType (n : Ex) : Option String :=
  match n with
  | .bin _ .div _ (.un _ .neg _) => some "division-negative-denominator"
  | .bin _ .div _ _ => some "division-expression"
  | _ => none

theorem inverse_type_agree (k : Ctx) (n : Ex) :
    MultiplicativeInverseRule_get_type (some ⟨k, n⟩) = miPyType n := by
  cases n with
  | bin t o l r =>
    cases o <;> try rfl
    cases r with
    | un rt ro rc => cases ro <;> rfl
    | _ => rfl
  | _ => rfl

theorem inverse_can_agree (k : Ctx) (n : Ex) :
    (MultiplicativeInverseRule_get_type (some ⟨k, n⟩)).isSome = miCan n := by
  rw [inverse_type_agree]
  cases n with
  | bin t o l r =>
    cases o <;> try rfl
    cases r with
    | un rt ro rc => cases ro <;> rfl
    | _ => rfl
  | _ => rfl

theorem parent_mul (k : Ctx) (n : Ex) :
    (Ref.truthy (Ref.parent (some ⟨k, n⟩)) && isinstance (Ref.parent (some ⟨k, n⟩)) [.MultiplyExpression])
      = parentIs .mul k := by
  cases k with
  | nil => rfl
  | cons f k' =>
    cases f with
    | un ft fo => cases fo <;> rfl
    | binL ft p fr => cases p <;> rfl
    | binR ft p fl => cases p <;> rfl

theorem sibling_mul (k : Ctx) (n : Ex) :
    (Ref.truthy (Ref.get_sibling (some ⟨k, n⟩)) && isinstance (Ref.get_sibling (some ⟨k, n⟩)) [.MultiplyExpression])
      = (match sibling? k with | some s => s.isOp .mul | none => false) := by
  cases k with
  | nil => rfl
  | cons f k' =>
    cases f with
    | un ft fo => rfl
    | binL ft p fr => cases fr with
      | bin st so sl sr => cases so <;> rfl
      | _ => rfl
    | binR ft p fl => cases fl with
      | bin st so sl sr => cases so <;> rfl
      | _ => rfl

theorem commutative_can_agree (preferred : Bool) (k : Ctx) (n : Ex) :
    CommutativeSwapRule_can_apply_to preferred (some ⟨k, n⟩) = csCan preferred k n := by
  cases n with
  | const t v => rfl
  | var t x => rfl
  | un t o c => rfl
  | bin t o l r =>
    cases o <;> try rfl
    -- multiplication
    cases preferred
    case true => rfl
    case false =>
      simp only [CommutativeSwapRule_can_apply_to, csCan, parent_mul, sibling_mul]
      cases r with
      | const rt rv => cases l <;> rfl
      | var rt rx => cases l <;> rfl
      | un rt ro rc => cases l <;> rfl
      | bin rt ro rl rr =>
        cases ro
        case pow => cases l <;> cases rl <;> cases rr <;> rfl
        all_goals (cases l <;> rfl)

/-- the strings `RestateSubtractionRule.get_type` returns -/
def RSType.pyName : RSType → String
  | .subtraction => "subtraction"
  | .subTermWithConst => "subtract-term-with-constant"
  | .subNegativeConst => "subtract-negative-constant"
  | .subNegateVariable => "subtract-negative-variable"
  | .addNegConst => "add_neg_const"
  | .addNegConstVar => "add_neg_const_var"
  | .addNegConstVarExp => "add_neg_const_var_exp"

theorem rs_parent (k : Ctx) (n : Ex) :
    ((Option.isNone (Ref.parent (some ⟨k, n⟩))) || isinstance (Ref.parent (some ⟨k, n⟩)) [.EqualExpression]
      || isinstance (Ref.parent (some ⟨k, n⟩)) [.AddExpression]) = rsParentOk k := by
  cases k with
  | nil => rfl
  | cons f k' =>
    cases f with
    | un ft fo => cases fo <;> rfl
    | binL ft p fr => cases p <;> rfl
    | binR ft p fl => cases p <;> rfl

theorem restate_type_agree (k : Ctx) (n : Ex) :
    RestateSubtractionRule_get_type (some ⟨k, n⟩) = (rsType k n).map RSType.pyName := by
  cases n with
  | const t v => rfl
  | var t x => rfl
  | un t o c => rfl
  | bin t o l r =>
    cases o
    case sub =>
      have hp := rs_parent k (.bin t .sub l r)
      simp only [RestateSubtractionRule_get_type, rsType, rsStep, hp]
      cases hk : rsParentOk k
      · rfl
      · cases r with
        | const rt rv =>
          by_cases hv : rv < 0 <;>
            simp [isinstance, Cls.holds, Ref.right, Ref.value, Ref.get_child, Ref.left, numLt, hv, RSType.pyName]
        | var rt rx => rfl
        | un rt ro rc =>
          cases ro <;> try rfl
          cases rc <;> rfl
        | bin rt ro rl rr =>
          cases ro <;> try rfl
          cases rl <;> rfl
    case add =>
      simp only [RestateSubtractionRule_get_type, rsType, rsStep]
      cases r with
      | const rt rv =>
        by_cases hv : rv < 0 <;>
          simp [isinstance, Cls.holds, Ref.right, Ref.value, Ref.truthy, numLt, hv, RSType.pyName]
      | var rt rx => rfl
      | un rt ro rc => rfl
      | bin rt ro rl rr =>
        cases ro <;> try rfl
        cases rl with
        | const lt lv =>
          cases rr with
          | var vt vx =>
            by_cases hv : lv < 0 <;>
              simp [isinstance, Cls.holds, Ref.right, Ref.left, Ref.value, Ref.truthy, numLt, hv, RSType.pyName]
          | bin bt bo bl br =>
            cases bo <;> try rfl
            by_cases hv : lv < 0 <;>
              simp [isinstance, Cls.holds, Ref.right, Ref.left, Ref.value, Ref.truthy, numLt, hv, RSType.pyName]
          | _ => rfl
        | _ => cases rr <;> rfl
    all_goals rfl

end Mathy.SrcAgree
