/-
`ConstantsSimplifyRule.get_type` vs `caType` on products of products `(ll * lr) * r`, left factor
of the inner product: var.  Exhaustive case analysis on the constructors the two functions inspect
(proof text produced by a script; every case closes by `rfl`).
-/
import Mathy.Proofs.PySrcAgreeCA
namespace Mathy.SrcAgree
open Mathy.Py Mathy.Gen.Src

theorem ca_pp_var_const (k : Ctx) (t lt : Nat) (llt : Nat) (llx : Char) (lrt : Nat) (lrv : Rat) (r : Ex) :
    CAAgree k (.bin t .mul (.bin lt .mul (.var llt llx) (.const lrt lrv)) r) := by
  unfold CAAgree
  rcases r with ⟨_, _⟩ | ⟨_, _⟩ | ⟨_, _, _⟩ | ⟨_, ro, rl, rr⟩ <;> try rfl
  all_goals (try (cases ro <;> try rfl))
  all_goals (try (rcases rl with ⟨_, _⟩ | ⟨_, _⟩ | ⟨_, _, _⟩ | ⟨_, rlo, rll, rlr⟩ <;> try rfl))
  all_goals (try (cases rlo <;> try rfl))
  all_goals (try (cases rll <;> rfl))

theorem ca_pp_var_var (k : Ctx) (t lt : Nat) (llt : Nat) (llx : Char) (lrt : Nat) (lrx : Char) (r : Ex) :
    CAAgree k (.bin t .mul (.bin lt .mul (.var llt llx) (.var lrt lrx)) r) := by
  unfold CAAgree
  rcases r with ⟨_, _⟩ | ⟨_, _⟩ | ⟨_, _, _⟩ | ⟨_, ro, rl, rr⟩ <;> try rfl
  all_goals (try (cases ro <;> try rfl))
  all_goals (try (rcases rl with ⟨_, _⟩ | ⟨_, _⟩ | ⟨_, _, _⟩ | ⟨_, rlo, rll, rlr⟩ <;> try rfl))
  all_goals (try (cases rlo <;> try rfl))
  all_goals (try (cases rll <;> rfl))

theorem ca_pp_var_un (k : Ctx) (t lt : Nat) (llt : Nat) (llx : Char) (lrt : Nat) (lro : Uop) (lrc : Ex) (r : Ex) :
    CAAgree k (.bin t .mul (.bin lt .mul (.var llt llx) (.un lrt lro lrc)) r) := by
  unfold CAAgree
  rcases r with ⟨_, _⟩ | ⟨_, _⟩ | ⟨_, _, _⟩ | ⟨_, ro, rl, rr⟩ <;> try rfl
  all_goals (try (cases ro <;> try rfl))
  all_goals (try (rcases rl with ⟨_, _⟩ | ⟨_, _⟩ | ⟨_, _, _⟩ | ⟨_, rlo, rll, rlr⟩ <;> try rfl))
  all_goals (try (cases rlo <;> try rfl))
  all_goals (try (cases rll <;> rfl))

theorem ca_pp_var_bin_add (k : Ctx) (t lt : Nat) (llt : Nat) (llx : Char) (lrt : Nat) (lrl lrr r : Ex) :
    CAAgree k (.bin t .mul (.bin lt .mul (.var llt llx) (.bin lrt .add lrl lrr)) r) := by
  unfold CAAgree
  cases lrl
  all_goals (
    rcases r with ⟨_, _⟩ | ⟨_, _⟩ | ⟨_, _, _⟩ | ⟨_, ro, rl, rr⟩ <;> try rfl
    all_goals (try (cases ro <;> try rfl))
    all_goals (try (rcases rl with ⟨_, _⟩ | ⟨_, _⟩ | ⟨_, _, _⟩ | ⟨_, rlo, rll, rlr⟩ <;> try rfl))
    all_goals (try (cases rlo <;> try rfl))
    all_goals (try (cases rll <;> rfl))
    )

theorem ca_pp_var_bin_sub (k : Ctx) (t lt : Nat) (llt : Nat) (llx : Char) (lrt : Nat) (lrl lrr r : Ex) :
    CAAgree k (.bin t .mul (.bin lt .mul (.var llt llx) (.bin lrt .sub lrl lrr)) r) := by
  unfold CAAgree
  cases lrl
  all_goals (
    rcases r with ⟨_, _⟩ | ⟨_, _⟩ | ⟨_, _, _⟩ | ⟨_, ro, rl, rr⟩ <;> try rfl
    all_goals (try (cases ro <;> try rfl))
    all_goals (try (rcases rl with ⟨_, _⟩ | ⟨_, _⟩ | ⟨_, _, _⟩ | ⟨_, rlo, rll, rlr⟩ <;> try rfl))
    all_goals (try (cases rlo <;> try rfl))
    all_goals (try (cases rll <;> rfl))
    )

theorem ca_pp_var_bin_mul (k : Ctx) (t lt : Nat) (llt : Nat) (llx : Char) (lrt : Nat) (lrl lrr r : Ex) :
    CAAgree k (.bin t .mul (.bin lt .mul (.var llt llx) (.bin lrt .mul lrl lrr)) r) := by
  unfold CAAgree
  cases lrl
  all_goals (
    rcases r with ⟨_, _⟩ | ⟨_, _⟩ | ⟨_, _, _⟩ | ⟨_, ro, rl, rr⟩ <;> try rfl
    all_goals (try (cases ro <;> try rfl))
    all_goals (try (rcases rl with ⟨_, _⟩ | ⟨_, _⟩ | ⟨_, _, _⟩ | ⟨_, rlo, rll, rlr⟩ <;> try rfl))
    all_goals (try (cases rlo <;> try rfl))
    all_goals (try (cases rll <;> rfl))
    )

theorem ca_pp_var_bin_div (k : Ctx) (t lt : Nat) (llt : Nat) (llx : Char) (lrt : Nat) (lrl lrr r : Ex) :
    CAAgree k (.bin t .mul (.bin lt .mul (.var llt llx) (.bin lrt .div lrl lrr)) r) := by
  unfold CAAgree
  cases lrl
  all_goals (
    rcases r with ⟨_, _⟩ | ⟨_, _⟩ | ⟨_, _, _⟩ | ⟨_, ro, rl, rr⟩ <;> try rfl
    all_goals (try (cases ro <;> try rfl))
    all_goals (try (rcases rl with ⟨_, _⟩ | ⟨_, _⟩ | ⟨_, _, _⟩ | ⟨_, rlo, rll, rlr⟩ <;> try rfl))
    all_goals (try (cases rlo <;> try rfl))
    all_goals (try (cases rll <;> rfl))
    )

theorem ca_pp_var_bin_pow (k : Ctx) (t lt : Nat) (llt : Nat) (llx : Char) (lrt : Nat) (lrl lrr r : Ex) :
    CAAgree k (.bin t .mul (.bin lt .mul (.var llt llx) (.bin lrt .pow lrl lrr)) r) := by
  unfold CAAgree
  cases lrl
  all_goals (
    rcases r with ⟨_, _⟩ | ⟨_, _⟩ | ⟨_, _, _⟩ | ⟨_, ro, rl, rr⟩ <;> try rfl
    all_goals (try (cases ro <;> try rfl))
    all_goals (try (rcases rl with ⟨_, _⟩ | ⟨_, _⟩ | ⟨_, _, _⟩ | ⟨_, rlo, rll, rlr⟩ <;> try rfl))
    all_goals (try (cases rlo <;> try rfl))
    all_goals (try (cases rll <;> rfl))
    )

theorem ca_pp_var_bin_eq (k : Ctx) (t lt : Nat) (llt : Nat) (llx : Char) (lrt : Nat) (lrl lrr r : Ex) :
    CAAgree k (.bin t .mul (.bin lt .mul (.var llt llx) (.bin lrt .eq lrl lrr)) r) := by
  unfold CAAgree
  cases lrl
  all_goals (
    rcases r with ⟨_, _⟩ | ⟨_, _⟩ | ⟨_, _, _⟩ | ⟨_, ro, rl, rr⟩ <;> try rfl
    all_goals (try (cases ro <;> try rfl))
    all_goals (try (rcases rl with ⟨_, _⟩ | ⟨_, _⟩ | ⟨_, _, _⟩ | ⟨_, rlo, rll, rlr⟩ <;> try rfl))
    all_goals (try (cases rlo <;> try rfl))
    all_goals (try (cases rll <;> rfl))
    )

theorem ca_pp_var (k : Ctx) (t lt : Nat) (llt : Nat) (llx : Char) (lr r : Ex) :
    CAAgree k (.bin t .mul (.bin lt .mul (.var llt llx) lr) r) := by
  rcases lr with ⟨lrt, lrv⟩ | ⟨lrt, lrx⟩ | ⟨lrt, lro, lrc⟩ | ⟨lrt, lro, lrl, lrr⟩
  · exact ca_pp_var_const ..
  · exact ca_pp_var_var ..
  · exact ca_pp_var_un ..
  · cases lro
    · exact ca_pp_var_bin_add ..
    · exact ca_pp_var_bin_sub ..
    · exact ca_pp_var_bin_mul ..
    · exact ca_pp_var_bin_div ..
    · exact ca_pp_var_bin_pow ..
    · exact ca_pp_var_bin_eq ..


end Mathy.SrcAgree
