/-
The model's character classes are the tokenizer's (translated source).

`Gen/PySrc.lean` is regenerated on every run from the live Python source by `harness/py2lean.py`
(statement-by-statement translation over `Model/PyRt.lean`).  Each theorem below equates one
generated definition with the corresponding function of the hand-written model, for ALL inputs.
-/
import Mathy.Gen.PySrcTok
import Mathy.Model.Tok
namespace Mathy.SrcAgree
open Mathy.Py Mathy.Gen.Src

/-! ### tokenizer character classes -/

theorem is_alpha_agree (c : Char) : Tokenizer_is_alpha c = isAlpha c := by
  simp [Tokenizer_is_alpha, isAlpha, chLe]

theorem is_number_agree (c : Char) : Tokenizer_is_number c = isNumber c := by
  have h : (Char.ofNat 46 == c) = (c == '.') := by
    rw [Bool.eq_iff_iff]; simp only [beq_iff_eq]; exact eq_comm
  simp only [Tokenizer_is_number, isNumber, chLe, h]

end Mathy.SrcAgree
