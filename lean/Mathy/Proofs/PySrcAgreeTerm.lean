/-
`util.get_term_ex` (translated from the live source) is the model's `getTermEx`: the generated
`get_term_ex` equals its specification `Ref.get_term_ex` (Model/PyRt.lean) on every reference.
-/
import Mathy.Gen.PySrcUtil
import Mathy.Model.Rules
namespace Mathy.SrcAgree
open Mathy.Py Mathy.Gen.Src

theorem gte_leaf_const (k : Ctx) (t : Nat) (v : Rat) :
    get_term_ex (some ⟨k, .const t v⟩) = Ref.get_term_ex (some ⟨k, .const t v⟩) := by
  cases k with
  | nil => rfl
  | cons f k' =>
    cases f with
    | binL ft o r => cases o <;> rfl
    | binR ft o l => cases o <;> rfl
    | un ft o => cases o <;> rfl

theorem gte_leaf_var (k : Ctx) (t : Nat) (x : Char) :
    get_term_ex (some ⟨k, .var t x⟩) = Ref.get_term_ex (some ⟨k, .var t x⟩) := by
  cases k with
  | nil => rfl
  | cons f k' =>
    cases f with
    | binL ft o r => cases o <;> rfl
    | binR ft o l => cases o <;> rfl
    | un ft o => cases o <;> rfl

theorem gte_un (k : Ctx) (t : Nat) (o : Uop) (c : Ex) :
    get_term_ex (some ⟨k, .un t o c⟩) = Ref.get_term_ex (some ⟨k, .un t o c⟩) := by
  cases o <;> try rfl
  rcases c with ⟨_, _⟩ | ⟨_, _⟩ | ⟨_, _, _⟩ | ⟨_, co, cl, cr⟩ <;> try rfl
  cases co <;> try rfl
  rcases cl with ⟨_, _⟩ | ⟨_, _⟩ | ⟨_, _, _⟩ | ⟨_, _, _, _⟩ <;> try rfl
  all_goals (cases cr <;> rfl)

theorem gte_bin (k : Ctx) (t : Nat) (o : Bop) (l r : Ex) :
    get_term_ex (some ⟨k, .bin t o l r⟩) = Ref.get_term_ex (some ⟨k, .bin t o l r⟩) := by
  cases o
  case mul =>
    rcases l with ⟨_, _⟩ | ⟨_, _⟩ | ⟨_, _, _⟩ | ⟨_, _, _, _⟩
    · rcases r with ⟨_, _⟩ | ⟨_, _⟩ | ⟨_, _, _⟩ | ⟨_, ro, rl, rr⟩ <;> try rfl
      cases ro <;> try rfl
      rcases rl with ⟨_, _⟩ | ⟨_, _⟩ | ⟨_, _, _⟩ | ⟨_, _, _, _⟩ <;> try rfl
      all_goals (cases rr <;> rfl)
    all_goals (cases r <;> rfl)
  case pow =>
    rcases l with ⟨_, _⟩ | ⟨_, _⟩ | ⟨_, _, _⟩ | ⟨_, _, _, _⟩ <;> try rfl
    all_goals (cases r <;> rfl)
  all_goals (cases l <;> cases r <;> rfl)

/-- **`get_term_ex` as translated from util.py is the model's `getTermEx`** (with the parent test
`isinstance(node.parent, PowerExpression)` read off the position) -/
theorem get_term_ex_agree (r : Ref) : get_term_ex r = Ref.get_term_ex r := by
  rcases r with _ | ⟨k, e⟩
  · rfl
  · rcases e with ⟨t, v⟩ | ⟨t, x⟩ | ⟨t, o, c⟩ | ⟨t, o, l, r⟩
    · exact gte_leaf_const k t v
    · exact gte_leaf_var k t x
    · exact gte_un k t o c
    · exact gte_bin k t o l r

end Mathy.SrcAgree
