/-
Helper development for C15: the pointer-level `Heap.rotate` implements the functional
`BT.rotateAt` on heaps representing a tree with distinct node objects.
-/
import Mathy.Model.Tree
import Mathlib.Tactic.SplitIfs
set_option linter.unusedSimpArgs false
namespace Mathy
open BT

/-! ### explicit form of `rotate` in the local situation -/

/-- `n` is the LEFT child of `pn` -/
theorem Heap.rotate_left_explicit (h : Heap) (n pn : Nat) (ar br cr g : Option Nat)
    (hn : h n = ⟨ar, br, some pn⟩) (hpn : h pn = ⟨some n, cr, g⟩)
    (hne : n ≠ pn) (hb1 : br ≠ some n) (hb2 : br ≠ some pn) (hg1 : g ≠ some n) (hg2 : g ≠ some pn)
    (hgb : ∀ x, g = some x → br ≠ some x) :
    h.rotate n = fun x =>
      if x = n then ⟨ar, some pn, g⟩
      else if x = pn then ⟨br, cr, some n⟩
      else if some x = br then { h x with parent := some pn }
      else if some x = g then
        (if (h x).left = some pn then { h x with left := some n } else { h x with right := some n })
      else h x := by
  funext x
  have hne' := Ne.symm hne
  rcases br with _ | bi <;> rcases g with _ | gg
  · simp [Heap.rotate, Heap.setLeft, Heap.set, Heap.setParent, hn, hpn, hne, hne']
    split_ifs <;> simp_all [Heap.set]
  · simp at hg1 hg2
    have hg1' := Ne.symm hg1
    have hg2' := Ne.symm hg2
    simp [Heap.rotate, Heap.setLeft, Heap.set, Heap.setParent, hn, hpn, hne, hne', hg1, hg2, hg1', hg2']
    split_ifs <;> simp_all [Heap.set]
  · simp at hb1 hb2
    have hb1' := Ne.symm hb1
    have hb2' := Ne.symm hb2
    simp [Heap.rotate, Heap.setLeft, Heap.set, Heap.setParent, hn, hpn, hne, hne', hb1, hb2, hb1', hb2']
    split_ifs <;> simp_all [Heap.set]
  · simp at hb1 hb2 hg1 hg2 hgb
    have hb1' := Ne.symm hb1
    have hb2' := Ne.symm hb2
    have hg1' := Ne.symm hg1
    have hg2' := Ne.symm hg2
    have hgb' := Ne.symm hgb
    simp [Heap.rotate, Heap.setLeft, Heap.set, Heap.setParent, hn, hpn, hne, hne', hb1, hb2, hb1', hb2',
      hg1, hg2, hg1', hg2', hgb, hgb']
    split_ifs <;> simp_all [Heap.set]

/-- `n` is the RIGHT child of `pn` -/
theorem Heap.rotate_right_explicit (h : Heap) (n pn : Nat) (ar br cr g : Option Nat)
    (hn : h n = ⟨br, cr, some pn⟩) (hpn : h pn = ⟨ar, some n, g⟩) (ha : ar ≠ some n)
    (hne : n ≠ pn) (hb1 : br ≠ some n) (hb2 : br ≠ some pn) (hg1 : g ≠ some n) (hg2 : g ≠ some pn)
    (hgb : ∀ x, g = some x → br ≠ some x) :
    h.rotate n = fun x =>
      if x = n then ⟨some pn, cr, g⟩
      else if x = pn then ⟨ar, br, some n⟩
      else if some x = br then { h x with parent := some pn }
      else if some x = g then
        (if (h x).left = some pn then { h x with left := some n } else { h x with right := some n })
      else h x := by
  funext x
  have hne' := Ne.symm hne
  rcases br with _ | bi <;> rcases g with _ | gg
  · simp [Heap.rotate, Heap.setRight, Heap.set, Heap.setParent, hn, hpn, hne, hne', ha]
    split_ifs <;> simp_all [Heap.set]
  · simp at hg1 hg2
    have hg1' := Ne.symm hg1
    have hg2' := Ne.symm hg2
    simp [Heap.rotate, Heap.setRight, Heap.set, Heap.setParent, hn, hpn, hne, hne', hg1, hg2, hg1', hg2', ha]
    split_ifs <;> simp_all [Heap.set]
  · simp at hb1 hb2
    have hb1' := Ne.symm hb1
    have hb2' := Ne.symm hb2
    simp [Heap.rotate, Heap.setRight, Heap.set, Heap.setParent, hn, hpn, hne, hne', hb1, hb2, hb1', hb2', ha]
    split_ifs <;> simp_all [Heap.set]
  · simp at hb1 hb2 hg1 hg2 hgb
    have hb1' := Ne.symm hb1
    have hb2' := Ne.symm hb2
    have hg1' := Ne.symm hg1
    have hg2' := Ne.symm hg2
    have hgb' := Ne.symm hgb
    simp [Heap.rotate, Heap.setRight, Heap.set, Heap.setParent, hn, hpn, hne, hne', hb1, hb2, hb1', hb2',
      hg1, hg2, hg1', hg2', hgb, hgb', ha]
    split_ifs <;> simp_all [Heap.set]

/-! ### frame and re-parenting -/

theorem BT.rootId_mem {t : BT} {x : Nat} (h : t.rootId = some x) : x ∈ t.ids := by
  cases t <;> simp_all [rootId, ids]

theorem Rep.frame {h h' : Heap} {t : BT} {par : Option Nat} (hr : Rep h t par)
    (hf : ∀ x ∈ t.ids, h' x = h x) : Rep h' t par := by
  induction t generalizing par with
  | nil => trivial
  | node i l r ihl ihr =>
    obtain ⟨h1, h2, h3, h4, h5⟩ := hr
    have hi := hf i (by simp [ids])
    exact ⟨by rw [hi]; exact h1, by rw [hi]; exact h2, by rw [hi]; exact h3,
      ihl h4 (fun x hx => hf x (by simp [ids, hx])), ihr h5 (fun x hx => hf x (by simp [ids, hx]))⟩

theorem Rep.reparent {h h' : Heap} {t : BT} {par par' : Option Nat} (hr : Rep h t par)
    (hnd : t.ids.Nodup)
    (hf : ∀ x ∈ t.ids, some x ≠ t.rootId → h' x = h x)
    (hroot : ∀ x, t.rootId = some x → h' x = { h x with parent := par' }) : Rep h' t par' := by
  cases t with
  | nil => trivial
  | node i l r =>
    obtain ⟨h1, h2, h3, h4, h5⟩ := hr
    have hi := hroot i rfl
    simp only [ids, List.nodup_append, List.nodup_cons, List.mem_cons] at hnd
    obtain ⟨_, ⟨hir, _⟩, hdis⟩ := hnd
    have hil : i ∉ l.ids := fun hx => hdis i hx i (Or.inl rfl) rfl
    refine ⟨by rw [hi]; exact h1, by rw [hi]; exact h2, by rw [hi], ?_, ?_⟩
    · refine h4.frame (fun x hx => hf x (by simp [ids, hx]) ?_)
      simp only [rootId, ne_eq, Option.some.injEq]
      rintro rfl; exact hil hx
    · refine h5.frame (fun x hx => hf x (by simp [ids, hx]) ?_)
      simp only [rootId, ne_eq, Option.some.injEq]
      rintro rfl; exact hir hx

theorem Rep.cell {h : Heap} {i : Nat} {l r : BT} {par : Option Nat} (hr : Rep h (.node i l r) par) :
    h i = ⟨l.rootId, r.rootId, par⟩ := by
  obtain ⟨h1, h2, h3, _, _⟩ := hr
  rcases hc : h i with ⟨x, y, z⟩
  simp_all

/-! ### the local situation -/

theorem rotate_local_L (h : Heap) (pn n : Nat) (a b c : BT) (g : Option Nat)
    (hrep : Rep h (.node pn (.node n a b) c) g) (hnd : (BT.node pn (.node n a b) c).ids.Nodup)
    (hg : ∀ x, g = some x → x ∉ (BT.node pn (.node n a b) c).ids) :
    Rep (h.rotate n) (.node n a (.node pn b c)) g ∧
    (∀ x, x ∉ (BT.node pn (.node n a b) c).ids → some x ≠ g → h.rotate n x = h x) ∧
    (∀ x, g = some x → h.rotate n x =
      if (h x).left = some pn then { h x with left := some n } else { h x with right := some n }) := by
  have hpn := hrep.cell
  obtain ⟨-, -, -, hrn, hrc⟩ := hrep
  have hn := hrn.cell
  obtain ⟨-, -, -, hra, hrb⟩ := hrn
  simp only [rootId] at hpn
  simp only [ids, List.nodup_append, List.nodup_cons, List.mem_cons, List.mem_append] at hnd hg
  trace_state
  sorry

end Mathy
