/-
Helper development for C15: the pointer-level `Heap.rotate` implements the functional
`BT.rotateAt` on heaps representing a tree with distinct node objects.
-/
import Mathy.Model.Tree
import Mathlib.Tactic.SplitIfs
set_option linter.unusedSimpArgs false
namespace Mathy
open BT

/-! ### explicit form of `rotate` in the local situation -/

/-- `n` is the LEFT child of `pn` -/
theorem Heap.rotate_left_explicit (h : Heap) (n pn : Nat) (ar br cr g : Option Nat)
    (hn : h n = ⟨ar, br, some pn⟩) (hpn : h pn = ⟨some n, cr, g⟩)
    (hne : n ≠ pn) (hb1 : br ≠ some n) (hb2 : br ≠ some pn) (hg1 : g ≠ some n) (hg2 : g ≠ some pn)
    (hgb : ∀ x, g = some x → br ≠ some x) :
    h.rotate n = fun x =>
      if x = n then ⟨ar, some pn, g⟩
      else if x = pn then ⟨br, cr, some n⟩
      else if some x = br then { h x with parent := some pn }
      else if some x = g then
        (if (h x).left = some pn then { h x with left := some n } else { h x with right := some n })
      else h x := by
  funext x
  have hne' := Ne.symm hne
  rcases br with _ | bi <;> rcases g with _ | gg
  · simp [Heap.rotate, Heap.setLeft, Heap.set, Heap.setParent, hn, hpn, hne, hne']
    split_ifs <;> simp_all [Heap.set]
  · simp at hg1 hg2
    have hg1' := Ne.symm hg1
    have hg2' := Ne.symm hg2
    simp [Heap.rotate, Heap.setLeft, Heap.set, Heap.setParent, hn, hpn, hne, hne', hg1, hg2, hg1', hg2']
    split_ifs <;> simp_all [Heap.set]
  · simp at hb1 hb2
    have hb1' := Ne.symm hb1
    have hb2' := Ne.symm hb2
    simp [Heap.rotate, Heap.setLeft, Heap.set, Heap.setParent, hn, hpn, hne, hne', hb1, hb2, hb1', hb2']
    split_ifs <;> simp_all [Heap.set]
  · simp at hb1 hb2 hg1 hg2 hgb
    have hb1' := Ne.symm hb1
    have hb2' := Ne.symm hb2
    have hg1' := Ne.symm hg1
    have hg2' := Ne.symm hg2
    have hgb' := Ne.symm hgb
    simp [Heap.rotate, Heap.setLeft, Heap.set, Heap.setParent, hn, hpn, hne, hne', hb1, hb2, hb1', hb2',
      hg1, hg2, hg1', hg2', hgb, hgb']
    split_ifs <;> simp_all [Heap.set]

/-- `n` is the RIGHT child of `pn` -/
theorem Heap.rotate_right_explicit (h : Heap) (n pn : Nat) (ar br cr g : Option Nat)
    (hn : h n = ⟨br, cr, some pn⟩) (hpn : h pn = ⟨ar, some n, g⟩) (ha : ar ≠ some n)
    (hne : n ≠ pn) (hb1 : br ≠ some n) (hb2 : br ≠ some pn) (hg1 : g ≠ some n) (hg2 : g ≠ some pn)
    (hgb : ∀ x, g = some x → br ≠ some x) :
    h.rotate n = fun x =>
      if x = n then ⟨some pn, cr, g⟩
      else if x = pn then ⟨ar, br, some n⟩
      else if some x = br then { h x with parent := some pn }
      else if some x = g then
        (if (h x).left = some pn then { h x with left := some n } else { h x with right := some n })
      else h x := by
  funext x
  have hne' := Ne.symm hne
  rcases br with _ | bi <;> rcases g with _ | gg
  · simp [Heap.rotate, Heap.setRight, Heap.set, Heap.setParent, hn, hpn, hne, hne', ha]
    split_ifs <;> simp_all [Heap.set]
  · simp at hg1 hg2
    have hg1' := Ne.symm hg1
    have hg2' := Ne.symm hg2
    simp [Heap.rotate, Heap.setRight, Heap.set, Heap.setParent, hn, hpn, hne, hne', hg1, hg2, hg1', hg2', ha]
    split_ifs <;> simp_all [Heap.set]
  · simp at hb1 hb2
    have hb1' := Ne.symm hb1
    have hb2' := Ne.symm hb2
    simp [Heap.rotate, Heap.setRight, Heap.set, Heap.setParent, hn, hpn, hne, hne', hb1, hb2, hb1', hb2', ha]
    split_ifs <;> simp_all [Heap.set]
  · simp at hb1 hb2 hg1 hg2 hgb
    have hb1' := Ne.symm hb1
    have hb2' := Ne.symm hb2
    have hg1' := Ne.symm hg1
    have hg2' := Ne.symm hg2
    have hgb' := Ne.symm hgb
    simp [Heap.rotate, Heap.setRight, Heap.set, Heap.setParent, hn, hpn, hne, hne', hb1, hb2, hb1', hb2',
      hg1, hg2, hg1', hg2', hgb, hgb', ha]
    split_ifs <;> simp_all [Heap.set]

/-! ### frame and re-parenting -/

theorem BT.rootId_mem {t : BT} {x : Nat} (h : t.rootId = some x) : x ∈ t.ids := by
  cases t <;> simp_all [rootId, ids]

theorem Rep.frame {h h' : Heap} {t : BT} {par : Option Nat} (hr : Rep h t par)
    (hf : ∀ x ∈ t.ids, h' x = h x) : Rep h' t par := by
  induction t generalizing par with
  | nil => trivial
  | node i l r ihl ihr =>
    obtain ⟨h1, h2, h3, h4, h5⟩ := hr
    have hi := hf i (by simp [ids])
    exact ⟨by rw [hi]; exact h1, by rw [hi]; exact h2, by rw [hi]; exact h3,
      ihl h4 (fun x hx => hf x (by simp [ids, hx])), ihr h5 (fun x hx => hf x (by simp [ids, hx]))⟩

theorem Rep.reparent {h h' : Heap} {t : BT} {par par' : Option Nat} (hr : Rep h t par)
    (hnd : t.ids.Nodup)
    (hf : ∀ x ∈ t.ids, some x ≠ t.rootId → h' x = h x)
    (hroot : ∀ x, t.rootId = some x → h' x = { h x with parent := par' }) : Rep h' t par' := by
  cases t with
  | nil => trivial
  | node i l r =>
    obtain ⟨h1, h2, h3, h4, h5⟩ := hr
    have hi := hroot i rfl
    simp only [ids, List.nodup_append, List.nodup_cons, List.mem_cons] at hnd
    obtain ⟨_, ⟨hir, _⟩, hdis⟩ := hnd
    have hil : i ∉ l.ids := fun hx => hdis i hx i (Or.inl rfl) rfl
    refine ⟨by rw [hi]; exact h1, by rw [hi]; exact h2, by rw [hi], ?_, ?_⟩
    · refine h4.frame (fun x hx => hf x (by simp [ids, hx]) ?_)
      simp only [rootId, ne_eq, Option.some.injEq]
      rintro rfl; exact hil hx
    · refine h5.frame (fun x hx => hf x (by simp [ids, hx]) ?_)
      simp only [rootId, ne_eq, Option.some.injEq]
      rintro rfl; exact hir hx

theorem Rep.cell {h : Heap} {i : Nat} {l r : BT} {par : Option Nat} (hr : Rep h (.node i l r) par) :
    h i = ⟨l.rootId, r.rootId, par⟩ := by
  obtain ⟨h1, h2, h3, _, _⟩ := hr
  rcases hc : h i with ⟨x, y, z⟩
  simp_all

/-! ### the local situation -/

theorem rotate_local_L (h : Heap) (pn n : Nat) (a b c : BT) (g : Option Nat)
    (hrep : Rep h (.node pn (.node n a b) c) g) (hnd : (BT.node pn (.node n a b) c).ids.Nodup)
    (hg : ∀ x, g = some x → x ∉ (BT.node pn (.node n a b) c).ids) :
    Rep (h.rotate n) (.node n a (.node pn b c)) g ∧
    (∀ x, x ∉ (BT.node pn (.node n a b) c).ids → some x ≠ g → h.rotate n x = h x) ∧
    (∀ x, g = some x → h.rotate n x =
      if (h x).left = some pn then { h x with left := some n } else { h x with right := some n }) := by
  have hpn := hrep.cell
  obtain ⟨-, -, -, hrn, hrc⟩ := hrep
  have hn := hrn.cell
  obtain ⟨-, -, -, hra, hrb⟩ := hrn
  have hrt : (BT.node n a b).rootId = some n := rfl
  rw [hrt] at hpn
  simp only [ids, List.nodup_append, List.nodup_cons, List.mem_cons, List.mem_append] at hnd hg
  obtain ⟨⟨hnda, ⟨hnb, hndb⟩, hab⟩, ⟨hpc, hndc⟩, hx⟩ := hnd
  have hna : n ∉ a.ids := fun hm => hab n hm n (Or.inl rfl) rfl
  have hnpn : n ≠ pn := hx n (Or.inr (Or.inl rfl)) pn (Or.inl rfl)
  have hnc : n ∉ c.ids := fun hm => hx n (.inr (.inl rfl)) n (.inr hm) rfl
  have hpa : pn ∉ a.ids := fun hm => hx pn (.inl hm) pn (.inl rfl) rfl
  have hpb : pn ∉ b.ids := fun hm => hx pn (.inr (.inr hm)) pn (.inl rfl) rfl
  have hdab : ∀ x, x ∈ a.ids → x ∉ b.ids := fun x h1 h2 => hab x h1 x (.inr h2) rfl
  have hdac : ∀ x, x ∈ a.ids → x ∉ c.ids := fun x h1 h2 => hx x (.inl h1) x (.inr h2) rfl
  have hdbc : ∀ x, x ∈ b.ids → x ∉ c.ids := fun x h1 h2 => hx x (.inr (.inr h1)) x (.inr h2) rfl
  have hb1 : b.rootId ≠ some n := fun e => hnb (BT.rootId_mem e)
  have hb2 : b.rootId ≠ some pn := fun e => hpb (BT.rootId_mem e)
  have hg1 : g ≠ some n := fun e => hg n e (.inl (.inr (.inl rfl)))
  have hg2 : g ≠ some pn := fun e => hg pn e (.inr (.inl rfl))
  have hgb : ∀ x, g = some x → b.rootId ≠ some x :=
    fun x e e' => hg x e (.inl (.inr (.inr (BT.rootId_mem e'))))
  have hE := Heap.rotate_left_explicit h n pn a.rootId b.rootId c.rootId g hn hpn hnpn hb1 hb2 hg1 hg2 hgb
  have e_n : h.rotate n n = ⟨a.rootId, some pn, g⟩ := by rw [hE]; simp
  have e_pn : h.rotate n pn = ⟨b.rootId, c.rootId, some n⟩ := by rw [hE]; simp [hnpn.symm]
  have e_o : ∀ x, x ≠ n → x ≠ pn → some x ≠ b.rootId → some x ≠ g → h.rotate n x = h x := by
    intro x h1 h2 h3 h4; rw [hE]; simp [h1, h2, h3, h4]
  have e_b : ∀ x, b.rootId = some x → h.rotate n x = { h x with parent := some pn } := by
    intro x e
    have h1 : x ≠ n := fun e' => hb1 (e' ▸ e)
    have h2 : x ≠ pn := fun e' => hb2 (e' ▸ e)
    rw [hE]; simp [h1, h2, e]
  have e_g : ∀ x, g = some x → h.rotate n x =
      if (h x).left = some pn then { h x with left := some n } else { h x with right := some n } := by
    intro x e
    have h1 : x ≠ n := fun e' => hg1 (e' ▸ e)
    have h2 : x ≠ pn := fun e' => hg2 (e' ▸ e)
    have h3 : some x ≠ b.rootId := fun e' => hgb x e e'.symm
    rw [hE]; simp [h1, h2, h3, e]
  refine ⟨⟨by rw [e_n], by rw [e_n]; rfl, by rw [e_n], ?_, ⟨by rw [e_pn], by rw [e_pn], by rw [e_pn], ?_, ?_⟩⟩, ?_, e_g⟩
  · refine hra.frame (fun x hxa => e_o x ?_ ?_ ?_ ?_)
    · rintro rfl; exact hna hxa
    · rintro rfl; exact hpa hxa
    · intro e; exact hdab x hxa (BT.rootId_mem e.symm)
    · intro e; exact hg x e.symm (.inl (.inl hxa))
  · refine hrb.reparent hndb (fun x hxb hne => e_o x ?_ ?_ hne ?_) e_b
    · rintro rfl; exact hnb hxb
    · rintro rfl; exact hpb hxb
    · intro e; exact hg x e.symm (.inl (.inr (.inr hxb)))
  · refine hrc.frame (fun x hxc => e_o x ?_ ?_ ?_ ?_)
    · rintro rfl; exact hnc hxc
    · rintro rfl; exact hpc hxc
    · intro e; exact hdbc x (BT.rootId_mem e.symm) hxc
    · intro e; exact hg x e.symm (.inr (.inr hxc))
  · intro x hxn hxg
    simp only [ids, List.mem_cons, List.mem_append, not_or] at hxn
    exact e_o x hxn.1.2.1 hxn.2.1 (fun e => hxn.1.2.2 (BT.rootId_mem e.symm)) hxg

theorem rotate_local_R (h : Heap) (pn n : Nat) (a b c : BT) (g : Option Nat)
    (hrep : Rep h (.node pn a (.node n b c)) g) (hnd : (BT.node pn a (.node n b c)).ids.Nodup)
    (hg : ∀ x, g = some x → x ∉ (BT.node pn a (.node n b c)).ids) :
    Rep (h.rotate n) (.node n (.node pn a b) c) g ∧
    (∀ x, x ∉ (BT.node pn a (.node n b c)).ids → some x ≠ g → h.rotate n x = h x) ∧
    (∀ x, g = some x → h.rotate n x =
      if (h x).left = some pn then { h x with left := some n } else { h x with right := some n }) := by
  have hpn := hrep.cell
  obtain ⟨-, -, -, hra, hrn⟩ := hrep
  have hn := hrn.cell
  obtain ⟨-, -, -, hrb, hrc⟩ := hrn
  have hrt : (BT.node n b c).rootId = some n := rfl
  rw [hrt] at hpn
  simp only [ids, List.nodup_append, List.nodup_cons, List.mem_cons, List.mem_append] at hnd hg
  obtain ⟨hnda, ⟨hpx, hndb, ⟨hnc, hndc⟩, hbc⟩, hx⟩ := hnd
  simp only [not_or] at hpx
  obtain ⟨hpb, hpnn, hpc⟩ := hpx
  have hnpn : n ≠ pn := fun e => hpnn e.symm
  have hna : n ∉ a.ids := fun hm => hx n hm n (.inr (.inr (.inl rfl))) rfl
  have hnb : n ∉ b.ids := fun hm => hbc n hm n (.inl rfl) rfl
  have hpa : pn ∉ a.ids := fun hm => hx pn hm pn (.inl rfl) rfl
  have hdab : ∀ x, x ∈ a.ids → x ∉ b.ids := fun x h1 h2 => hx x h1 x (.inr (.inl h2)) rfl
  have hdac : ∀ x, x ∈ a.ids → x ∉ c.ids := fun x h1 h2 => hx x h1 x (.inr (.inr (.inr h2))) rfl
  have hdbc : ∀ x, x ∈ b.ids → x ∉ c.ids := fun x h1 h2 => hbc x h1 x (.inr h2) rfl
  have ha : a.rootId ≠ some n := fun e => hna (BT.rootId_mem e)
  have hb1 : b.rootId ≠ some n := fun e => hnb (BT.rootId_mem e)
  have hb2 : b.rootId ≠ some pn := fun e => hpb (BT.rootId_mem e)
  have hg1 : g ≠ some n := fun e => hg n e (.inr (.inr (.inr (.inl rfl))))
  have hg2 : g ≠ some pn := fun e => hg pn e (.inr (.inl rfl))
  have hgb : ∀ x, g = some x → b.rootId ≠ some x :=
    fun x e e' => hg x e (.inr (.inr (.inl (BT.rootId_mem e'))))
  have hE := Heap.rotate_right_explicit h n pn a.rootId b.rootId c.rootId g hn hpn ha hnpn hb1 hb2 hg1 hg2 hgb
  have e_n : h.rotate n n = ⟨some pn, c.rootId, g⟩ := by rw [hE]; simp
  have e_pn : h.rotate n pn = ⟨a.rootId, b.rootId, some n⟩ := by rw [hE]; simp [hnpn.symm]
  have e_o : ∀ x, x ≠ n → x ≠ pn → some x ≠ b.rootId → some x ≠ g → h.rotate n x = h x := by
    intro x h1 h2 h3 h4; rw [hE]; simp [h1, h2, h3, h4]
  have e_b : ∀ x, b.rootId = some x → h.rotate n x = { h x with parent := some pn } := by
    intro x e
    have h1 : x ≠ n := fun e' => hb1 (e' ▸ e)
    have h2 : x ≠ pn := fun e' => hb2 (e' ▸ e)
    rw [hE]; simp [h1, h2, e]
  have e_g : ∀ x, g = some x → h.rotate n x =
      if (h x).left = some pn then { h x with left := some n } else { h x with right := some n } := by
    intro x e
    have h1 : x ≠ n := fun e' => hg1 (e' ▸ e)
    have h2 : x ≠ pn := fun e' => hg2 (e' ▸ e)
    have h3 : some x ≠ b.rootId := fun e' => hgb x e e'.symm
    rw [hE]; simp [h1, h2, h3, e]
  refine ⟨⟨by rw [e_n]; rfl, by rw [e_n], by rw [e_n], ⟨by rw [e_pn], by rw [e_pn], by rw [e_pn], ?_, ?_⟩, ?_⟩, ?_, e_g⟩
  · refine hra.frame (fun x hxa => e_o x ?_ ?_ ?_ ?_)
    · rintro rfl; exact hna hxa
    · rintro rfl; exact hpa hxa
    · intro e; exact hdab x hxa (BT.rootId_mem e.symm)
    · intro e; exact hg x e.symm (.inl hxa)
  · refine hrb.reparent hndb (fun x hxb hne => e_o x ?_ ?_ hne ?_) e_b
    · rintro rfl; exact hnb hxb
    · rintro rfl; exact hpb hxb
    · intro e; exact hg x e.symm (.inr (.inr (.inl hxb)))
  · refine hrc.frame (fun x hxc => e_o x ?_ ?_ ?_ ?_)
    · rintro rfl; exact hnc hxc
    · rintro rfl; exact hpc hxc
    · intro e; exact hdbc x (BT.rootId_mem e.symm) hxc
    · intro e; exact hg x e.symm (.inr (.inr (.inr (.inr hxc))))
  · intro x hxn hxg
    simp only [ids, List.mem_cons, List.mem_append, not_or] at hxn
    exact e_o x hxn.2.2.2.1 hxn.2.1 (fun e => hxn.2.2.1 (BT.rootId_mem e.symm)) hxg

/-- the local situation for either direction -/
theorem rotate_local (h : Heap) (t : BT) (d : Dir) (n : Nat) (g : Option Nat)
    (hrep : Rep h t g) (hnd : t.ids.Nodup) (hg : ∀ x, g = some x → x ∉ t.ids)
    (hn : (t.sub [d]).rootId = some n) :
    Rep (h.rotate n) (t.rotateTop d) g ∧ (t.rotateTop d).rootId = some n ∧
    (∀ x, x ∉ t.ids → some x ≠ g → h.rotate n x = h x) ∧
    (∀ x, g = some x → h.rotate n x =
      if (h x).left = t.rootId then { h x with left := some n } else { h x with right := some n }) := by
  cases t with
  | nil => simp [sub, rootId] at hn
  | node pn l r =>
    cases d with
    | L =>
      cases l with
      | nil => simp [sub, rootId] at hn
      | node n' a b =>
        simp only [sub, rootId, Option.some.injEq] at hn
        subst hn
        obtain ⟨h1, h2, h3⟩ := rotate_local_L h pn n' a b r g hrep hnd hg
        exact ⟨h1, rfl, h2, h3⟩
    | R =>
      cases r with
      | nil => simp [sub, rootId] at hn
      | node n' b c =>
        simp only [sub, rootId, Option.some.injEq] at hn
        subst hn
        obtain ⟨h1, h2, h3⟩ := rotate_local_R h pn n' l b c g hrep hnd hg
        refine ⟨?_, ?_, h2, h3⟩
        · cases l <;> exact h1
        · cases l <;> rfl

/-! ### deeper paths -/

theorem BT.rootId_rotateAt_deep (t : BT) (d d' : Dir) (q : Path) :
    (t.rotateAt (d :: d' :: q)).rootId = t.rootId := by
  cases t <;> cases d <;> simp [rotateAt, rootId]

theorem rotate_deep (h : Heap) (n : Nat) : ∀ (p : Path) (t : BT) (par : Option Nat),
    2 ≤ p.length → Rep h t par → t.ids.Nodup → (t.sub p).rootId = some n →
    Rep (h.rotate n) (t.rotateAt p) par ∧ ∀ x, x ∉ t.ids → h.rotate n x = h x := by
  intro p
  induction p with
  | nil => intro t par hl; simp at hl
  | cons d q ih =>
    intro t par hl hrep hnd hn
    cases t with
    | nil => simp [sub, rootId] at hn
    | node i l r =>
      obtain ⟨c1, c2, c3, hrl, hrr⟩ := hrep
      have hnd' := hnd
      simp only [ids, List.nodup_append, List.nodup_cons, List.mem_cons] at hnd'
      obtain ⟨hndl, ⟨hir, hndr⟩, hdis⟩ := hnd'
      have hil : i ∉ l.ids := fun hx => hdis i hx i (Or.inl rfl) rfl
      have hlr : ∀ x, x ∈ l.ids → x ∉ r.ids := fun x h1 h2 => hdis x h1 x (Or.inr h2) rfl
      cases q with
      | nil => simp at hl
      | cons d' q' =>
        cases d with
        | L =>
          have hn' : (l.sub (d' :: q')).rootId = some n := by simpa [sub] using hn
          have hrw : (BT.node i l r).rotateAt (.L :: d' :: q') = .node i (l.rotateAt (d' :: q')) r := by
            simp [rotateAt]
          rw [hrw]
          cases q' with
          | nil =>
            obtain ⟨k1, k2, k3, k4⟩ := rotate_local h l d' n (some i) hrl hndl
              (by rintro x ⟨rfl⟩; exact hil) hn'
            have hi : h.rotate n i = { h i with left := some n } := by
              rw [k4 i rfl, if_pos c1]
            have hrot : l.rotateAt [d'] = l.rotateTop d' := by cases l <;> simp [rotateAt]
            rw [hrot]
            refine ⟨⟨by rw [hi, k2], by rw [hi]; exact c2, by rw [hi]; exact c3, k1, ?_⟩, ?_⟩
            · refine hrr.frame (fun x hxr => k3 x (fun hxl => hlr x hxl hxr) ?_)
              simp only [ne_eq, Option.some.injEq]; rintro rfl; exact hir hxr
            · intro x hx
              simp only [ids, List.mem_append, List.mem_cons, not_or] at hx
              exact k3 x hx.1 (by simp only [ne_eq, Option.some.injEq]; exact hx.2.1)
          | cons d'' q'' =>
            obtain ⟨k1, k2⟩ := ih l (some i) (by simp) hrl hndl hn'
            have hi : h.rotate n i = h i := k2 i hil
            refine ⟨⟨by rw [hi, BT.rootId_rotateAt_deep]; exact c1, by rw [hi]; exact c2,
              by rw [hi]; exact c3, k1, ?_⟩, ?_⟩
            · exact hrr.frame (fun x hxr => k2 x (fun hxl => hlr x hxl hxr))
            · intro x hx
              simp only [ids, List.mem_append, List.mem_cons, not_or] at hx
              exact k2 x hx.1
        | R =>
          have hn' : (r.sub (d' :: q')).rootId = some n := by simpa [sub] using hn
          have hrw : (BT.node i l r).rotateAt (.R :: d' :: q') = .node i l (r.rotateAt (d' :: q')) := by
            simp [rotateAt]
          rw [hrw]
          cases q' with
          | nil =>
            obtain ⟨k1, k2, k3, k4⟩ := rotate_local h r d' n (some i) hrr hndr
              (by rintro x ⟨rfl⟩; exact hir) hn'
            have hne : (h i).left ≠ r.rootId := by
              rw [c1]
              intro e
              cases r with
              | nil => simp [sub, rootId] at hn'
              | node j _ _ =>
                have : j ∈ l.ids := BT.rootId_mem e
                exact hlr j this (by simp [ids])
            have hi : h.rotate n i = { h i with right := some n } := by
              rw [k4 i rfl, if_neg hne]
            have hrot : r.rotateAt [d'] = r.rotateTop d' := by cases r <;> simp [rotateAt]
            rw [hrot]
            refine ⟨⟨by rw [hi]; exact c1, by rw [hi, k2], by rw [hi]; exact c3, ?_, k1⟩, ?_⟩
            · refine hrl.frame (fun x hxl => k3 x (fun hxr => hlr x hxl hxr) ?_)
              simp only [ne_eq, Option.some.injEq]; rintro rfl; exact hil hxl
            · intro x hx
              simp only [ids, List.mem_append, List.mem_cons, not_or] at hx
              exact k3 x hx.2.2 (by simp only [ne_eq, Option.some.injEq]; exact hx.2.1)
          | cons d'' q'' =>
            obtain ⟨k1, k2⟩ := ih r (some i) (by simp) hrr hndr hn'
            have hi : h.rotate n i = h i := k2 i hir
            refine ⟨⟨by rw [hi]; exact c1, by rw [hi, BT.rootId_rotateAt_deep]; exact c2,
              by rw [hi]; exact c3, ?_, k1⟩, ?_⟩
            · exact hrl.frame (fun x hxl => k2 x (fun hxr => hlr x hxl hxr))
            · intro x hx
              simp only [ids, List.mem_append, List.mem_cons, not_or] at hx
              exact k2 x hx.2.2

theorem heap_rotate_correct (h : Heap) (t : BT) (p : Path) (n : Nat)
    (hrep : Rep h t none) (hnd : t.ids.Nodup) (hp : p ≠ []) (hn : (t.sub p).rootId = some n) :
    Rep (h.rotate n) (t.rotateAt p) none := by
  match p, hp with
  | [d], _ =>
    have hrot : t.rotateAt [d] = t.rotateTop d := by cases t <;> simp [rotateAt]
    rw [hrot]
    exact (rotate_local h t d n none hrep hnd (by simp) hn).1
  | d :: d' :: q, _ =>
    exact (rotate_deep h n (d :: d' :: q) t none (by simp) hrep hnd hn).1

end Mathy
