/-
The model's printer IS the repository's (translated source): `Gen/PySrcStr.lean` is regenerated on every
run from the live `__str__` methods of mathy_core/expressions.py by `harness/py2lean_print.py`.
-/
import Mathy.Gen.PySrcStr
import Mathy.Proofs.PySrcAgreePrint
set_option linter.unusedSimpArgs false
namespace Mathy.SrcAgree
open Mathy.Py Mathy.Gen.Src

theorem names_agree :
    name_add = [opChar .add] ∧ name_sub = [opChar .sub] ∧ name_mul = [opChar .mul] ∧ name_div = [opChar .div] ∧
    name_pow = [opChar .pow] ∧ name_eq = [opChar .eq] ∧ name_sgn = "sgn".toList ∧ name_abs = "abs".toList ∧
    name_neg = ['-'] ∧ name_fact = ['!'] := by decide

/-- the test of `MultiplyExpression.__str__` for the compact form is the model's `isCompactProduct` -/
theorem compact_cond (k : Ctx) (t : Nat) (o : Bop) (l r : Ex) :
    (isinstance (some ⟨k, .bin t o l r⟩) [.MultiplyExpression] &&
      isinstance (Ref.left (some ⟨k, .bin t o l r⟩)) [.ConstantExpression] &&
      (isinstance (Ref.right (some ⟨k, .bin t o l r⟩)) [.VariableExpression] ||
        (isinstance (Ref.right (some ⟨k, .bin t o l r⟩)) [.PowerExpression] &&
          isinstance (Ref.left (Ref.right (some ⟨k, .bin t o l r⟩))) [.VariableExpression]))) =
      isCompactProduct (.bin t o l r) := by
  cases o <;> cases l <;> cases r <;> try rfl
  all_goals (rename_i a b c d e f; first | rfl | (cases d <;> cases e <;> rfl) | (cases c <;> cases d <;> rfl))

theorem parensC_eq (b : Bool) (s : List Char) :
    (if b = true then [Char.ofNat 40] ++ s ++ [Char.ofNat 41] else s) = parensC b s := by
  cases b <;> simp [parensC] <;> rfl

/-- **the translated `__str__` is the model's `strChars`** for every node of every tree (the fuel a node
needs is at most its size) -/
theorem str_agree (nt : Rat → List Char) : ∀ (e : Ex) (k : Ctx) (fuel : Nat), e.size < fuel →
    MathExpression_str nt fuel (some ⟨k, e⟩) = strChars nt (ctxParent k) e := by
  obtain ⟨hadd, hsub, hmul, hdiv, hpow, heq, hsgn, habs, -, -⟩ := names_agree
  intro e
  induction e with
  | const t v =>
    intro k fuel hf
    obtain ⟨f, rfl⟩ : ∃ f, fuel = f + 1 := ⟨fuel - 1, by simp [Ex.size] at hf; omega⟩
    simp [MathExpression_str, isinstance, Cls.holds, Ref.value, strChars]
  | var t x =>
    intro k fuel hf
    obtain ⟨f, rfl⟩ : ∃ f, fuel = f + 1 := ⟨fuel - 1, by simp [Ex.size] at hf; omega⟩
    simp [MathExpression_str, isinstance, Cls.holds, Ref.identifier, strChars]
  | un t o c ih =>
    intro k fuel hf
    obtain ⟨f, rfl⟩ : ∃ f, fuel = f + 1 := ⟨fuel - 1, by simp [Ex.size] at hf; omega⟩
    have hc : c.size < f := by simp only [Ex.size] at hf; omega
    have ihc := ih (.un t o :: k) f hc
    have hch : Ref.get_child (some ⟨k, .un t o c⟩) = some ⟨.un t o :: k, c⟩ := rfl
    have hpar : ctxParent (.un t o :: k) = none := rfl
    rw [hpar] at ihc
    cases o
    · -- negation
      simp only [MathExpression_str, isinstance, Cls.holds, List.any_cons, List.any_nil, Bool.or_false, Bool.false_eq_true,
        if_false, if_true, hch, ihc, negate_needs_parens_agree, parensC_eq, strChars]
      try rfl
    · simp only [MathExpression_str, isinstance, Cls.holds, List.any_cons, List.any_nil, Bool.or_false, Bool.false_eq_true,
        if_false, if_true, hch, ihc, strChars]
      try rfl
    · simp only [MathExpression_str, isinstance, Cls.holds, List.any_cons, List.any_nil, Bool.or_false, Bool.false_eq_true,
        if_false, if_true, hch, ihc, strChars, hsgn, parensC]
      simp
    · simp only [MathExpression_str, isinstance, Cls.holds, List.any_cons, List.any_nil, Bool.or_false, Bool.false_eq_true,
        if_false, if_true, hch, ihc, strChars, habs, parensC]
      simp
  | bin t o l r ihl ihr =>
    intro k fuel hf
    obtain ⟨f, rfl⟩ : ∃ f, fuel = f + 1 := ⟨fuel - 1, by simp [Ex.size] at hf; omega⟩
    have hl : l.size < f := by simp only [Ex.size] at hf; omega
    have hr : r.size < f := by simp only [Ex.size] at hf; omega
    have il := ihl (.binL t o r :: k) f hl
    have ir := ihr (.binR t o l :: k) f hr
    have hL : Ref.left (some ⟨k, .bin t o l r⟩) = some ⟨.binL t o r :: k, l⟩ := rfl
    have hR : Ref.right (some ⟨k, .bin t o l r⟩) = some ⟨.binR t o l :: k, r⟩ := rfl
    have hpl : ctxParent (.binL t o r :: k) = some (o, .left) := rfl
    have hpr : ctxParent (.binR t o l :: k) = some (o, .right) := rfl
    rw [hpl] at il
    rw [hpr] at ir
    have hcomp := compact_cond k t o l r
    have hsp := self_parens_agree k t o l r
    by_cases hpw : o = .pow
    · subst hpw
      have hrp : isinstance (some ⟨.binR t .pow l :: k, r⟩) [.PowerExpression] = r.isOp .pow := by
        cases r <;> try rfl
        rename_i a b c d; cases b <;> rfl
      have c1 : isinstance (some ⟨k, .bin t .pow l r⟩) [.ConstantExpression] = false := rfl
      have c2 : isinstance (some ⟨k, .bin t .pow l r⟩) [.VariableExpression] = false := rfl
      have c3 : isinstance (some ⟨k, .bin t .pow l r⟩) [.NegateExpression] = false := rfl
      have c4 : isinstance (some ⟨k, .bin t .pow l r⟩) [.FactorialExpression] = false := rfl
      have c5 : isinstance (some ⟨k, .bin t .pow l r⟩) [.FunctionExpression] = false := rfl
      have c6 : isinstance (some ⟨k, .bin t .pow l r⟩) [.PowerExpression] = true := rfl
      rw [MathExpression_str]
      simp only [c1, c2, c3, c4, c5, c6, Bool.false_eq_true, if_false, if_true, hL, hR, il, ir, hrp,
        power_base_needs_parens_agree, parensC_eq, hpow, strChars]
      simp [opChar]
    · have hnp : isinstance (some ⟨k, .bin t o l r⟩) [.PowerExpression] = false := by
        cases o <;> first | rfl | exact absurd rfl hpw
      rw [MathExpression_str]
      have hfalse : isinstance (some ⟨k, .bin t o l r⟩) [.ConstantExpression] = false ∧
          isinstance (some ⟨k, .bin t o l r⟩) [.VariableExpression] = false ∧
          isinstance (some ⟨k, .bin t o l r⟩) [.NegateExpression] = false ∧
          isinstance (some ⟨k, .bin t o l r⟩) [.FactorialExpression] = false ∧
          isinstance (some ⟨k, .bin t o l r⟩) [.FunctionExpression] = false := by
        refine ⟨rfl, rfl, rfl, rfl, rfl⟩
      obtain ⟨h1, h2, h3, h4, h5⟩ := hfalse
      simp only [hL, hR] at hcomp
      simp only [h1, h2, h3, h4, h5, hnp, Bool.false_eq_true, if_false, hL, hR, il, ir, hcomp, hsp]
      cases o
      case pow => exact absurd rfl hpw
      all_goals
        simp only [strChars, isinstance, Cls.holds, List.any_cons, List.any_nil, Bool.or_false, Bool.false_eq_true,
          if_false, if_true, hadd, hsub, hmul, hdiv, heq, parensC_eq]
        split <;> simp [opChar]

end Mathy.SrcAgree
