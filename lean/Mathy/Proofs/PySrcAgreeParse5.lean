/-
The model's parser IS the repository's parser (translated source) — part 5: `parse_factors`
(its two loops) and the assembly of `AG n` for every `n`.
-/
import Mathy.Proofs.PySrcAgreeParse4
set_option linter.unusedSimpArgs false
set_option linter.unusedSectionVars false
namespace Mathy.SrcAgree
open Mathy.Py Mathy.Gen.Src Mathy.PS

/-! ### list primitives on the shapes `parse_factors` uses -/

theorem listIdx_last (l : List Ex) (x : Ex) : listIdx (l ++ [x]) (-1) = .ok x := by
  have h1 : ((-1 : Int) + strLen (l ++ [x])) = Int.ofNat l.length := by
    simp only [strLen, List.length_append, List.length_cons, List.length_nil, Int.ofNat_eq_natCast]; omega
  simp only [listIdx, show ((-1 : Int) < 0) from by decide, if_true, h1]
  simp

theorem listSet_last (l : List Ex) (x y : Ex) : listSet (l ++ [x]) (-1) y = .ok (l ++ [y]) := by
  have h1 : ((-1 : Int) + strLen (l ++ [x])) = Int.ofNat l.length := by
    simp only [strLen, List.length_append, List.length_cons, List.length_nil, Int.ofNat_eq_natCast]; omega
  simp only [listSet, show ((-1 : Int) < 0) from by decide, if_true, h1]
  simp

theorem listIdx_zero_cons (x : Ex) (l : List Ex) : listIdx (x :: l) 0 = .ok x := by
  simp [listIdx]

/-- the product-building loop, once `exp` holds the product so far -/
theorem while2_some (st : ParserState) (r : Option Ex) (fd : Bool) :
    ∀ (fs : List Ex) (e : Ex) (fuel : Nat), fs.length < fuel →
      ExpressionParser_parse_factors_while2 fuel st r fd fs (some e) =
        .ok (some (fs.foldl (fun acc f => .bin 0 .mul acc f) e), []) := by
  intro fs
  induction fs with
  | nil =>
    intro e fuel hf
    obtain ⟨k, rfl⟩ : ∃ k, fuel = k + 1 := ⟨fuel - 1, by simp at hf; omega⟩
    rw [ExpressionParser_parse_factors_while2]
    simp [strLen]
  | cons f fs ih =>
    intro e fuel hf
    obtain ⟨k, rfl⟩ : ∃ k, fuel = k + 1 := ⟨fuel - 1, by simp only [List.length_cons] at hf; omega⟩
    rw [ExpressionParser_parse_factors_while2]
    have hpos : decide (strLen (f :: fs) > (0 : Int)) = true := by
      have : strLen (f :: fs) = (fs.length : Int) + 1 := by simp [strLen]
      rw [this]; exact decide_eq_true (by omega)
    simp only [hpos, if_true, Option.isNone_some, Bool.false_eq_true, if_false, bind_ok, optUse, listPop0]
    exact ih _ k (by simp only [List.length_cons] at hf; omega)

/-- the product-building loop from its start (`exp is None`), for two or more factors -/
theorem while2_none (st : ParserState) (r : Option Ex) (fd : Bool) (f0 f1 : Ex) (fs : List Ex) (fuel : Nat)
    (hf : (f0 :: f1 :: fs).length < fuel) :
    ExpressionParser_parse_factors_while2 fuel st r fd (f0 :: f1 :: fs) none =
      .ok (some ((f1 :: fs).foldl (fun acc f => .bin 0 .mul acc f) f0), []) := by
  obtain ⟨k, rfl⟩ : ∃ k, fuel = k + 1 := ⟨fuel - 1, by simp only [List.length_cons] at hf; omega⟩
  rw [ExpressionParser_parse_factors_while2]
  have hpos : decide (strLen (f0 :: f1 :: fs) > (0 : Int)) = true := by
    have : strLen (f0 :: f1 :: fs) = (fs.length : Int) + 2 := by simp [strLen]; omega
    rw [this]; exact decide_eq_true (by omega)
  simp only [hpos, if_true, Option.isNone_none, bind_ok, optUse, listPop0]
  exact while2_some st r fd fs _ k (by simp only [List.length_cons] at hf; omega)

theorem optUse_some (e : Ex) : optUse (some e) = .ok e := rfl

/-- the end of `parse_factors`: one factor is returned as it is, several are multiplied left to right -/
theorem factors_final (st : ParserState) (r : Option Ex) (fd : Bool) (L : List Ex) :
    (if ((strLen L) == (1 : Int)) then
        Except.bind (listIdx L (0 : Int)) (fun item => (.ok (item, st) : Except PyErr (Ex × ParserState)))
      else
        Except.bind (ExpressionParser_parse_factors_while2 ((List.length L) + 1) st r fd L none) (fun w =>
          Except.bind (optUse w.1) (fun e => .ok (e, st)))) =
      match L with
      | [] => .error .NoneUsed
      | f0 :: fs => .ok (fs.foldl (fun acc f => .bin 0 .mul acc f) f0, st) := by
  cases L with
  | nil =>
    rw [ExpressionParser_parse_factors_while2]
    simp [strLen, optUse, bind_ok, bind_err]
  | cons f0 fs =>
    cases fs with
    | nil => simp [strLen, listIdx_zero_cons, bind_ok]
    | cons f1 fs =>
      have h1 : (strLen (f0 :: f1 :: fs) == (1 : Int)) = false := by
        have : strLen (f0 :: f1 :: fs) = (fs.length : Int) + 2 := by simp [strLen]; omega
        rw [this]; simp; omega
      simp only [h1, Bool.false_eq_true, if_false]
      rw [while2_none st r fd f0 f1 fs _ (by simp)]
      simp [optUse, bind_ok]

theorem while1_false (k : Nat) (st : ParserState) (r : Option Ex) (fs : List Ex) :
    ExpressionParser_parse_factors_while1 (k + 1) st r false fs = .ok (r, fs, st, false) := by
  rw [ExpressionParser_parse_factors_while1]; simp

section step
variable {n : Nat} (ih : AG n)
include ih

/-- after one factor: `found = self.check(_FIRST_FACTOR)` and the next turn of the loop -/
theorem fl_tail (acc : List Ex) (f : Ex) (ts' : List Tok) (hg' : Good ts')
    (hne : (if firstFactor (headType ts') then factorsLoop n (f :: acc) ts' else .ok (f :: acc, ts')) ≠ .error .fuel) :
    Except.bind (ExpressionParser_check (stOf ts') parser_FIRST_FACTOR false)
        (fun v => ExpressionParser_parse_factors_while1 (n + 1) (stOf ts') none v (acc.reverse ++ [f])) =
      liftF (if firstFactor (headType ts') then factorsLoop n (f :: acc) ts' else .ok (f :: acc, ts')) := by
  simp only [check_eq, set_first_factor, Bool.false_and, Bool.false_eq_true, if_false, bind_ok]
  cases hff : firstFactor (headType ts')
  · simp [while1_false, liftF]
  · simp only [hff, if_true] at hne ⊢
    have := ih.fl (f :: acc) ts' none hg' hne
    simpa [List.reverse_cons] using this

theorem fl_step (acc : List Ex) (ts : List Tok) (r0 : Option Ex) (hg : Good ts)
    (hne : factorsLoop (n + 1) acc ts ≠ .error .fuel) :
    ExpressionParser_parse_factors_while1 (n + 1 + 1) (stOf ts) r0 true acc.reverse =
      liftF (factorsLoop (n + 1) acc ts) := by
  obtain ⟨-, hVar, -, -, -, -, -, -, hOpen, hClose, hFn, -⟩ := tt_consts
  rw [ExpressionParser_parse_factors_while1]
  simp only [if_true, cur_type, cur_value, hVar, hFn, hOpen, hClose, tyBits_beq]
  rcases ts with _ | ⟨⟨ty, v⟩, r⟩
  · simp [factorsLoop, headType, liftF, errOf, bind_err]
  · cases ty
    all_goals rw [factorsLoop] at hne ⊢
    case «variable» =>
      simp only [headType_cons, hd_cons, beq_self_eq_true, if_true] at hne ⊢
      rw [eat_eq _ _ hg.wf]
      cases he : eat .variable (⟨.variable, v⟩ :: r) with
      | error k => simp [liftF, bind_err]
      | ok ts1 =>
        have hg1 : Good ts1 := hg.of_eat he
        simp only [he] at hne
        simp only [bind_ok]
        exact fl_tail ih acc _ ts1 hg1 hne
    case «function» =>
      simp only [headType_cons, hd_cons, beq_self_eq_true, if_true, reduceCtorEq, beq_iff_eq, if_false] at hne ⊢
      have key := ih.fn _ hg rfl
      generalize hm : parseFunction n _ = pf at hne key ⊢
      cases pf with
      | error k =>
        have hk : k ≠ .fuel := by rintro rfl; simp at hne
        rw [key (by simpa using hk)]
        simp [liftP, liftF, bind_err]
      | ok p =>
        obtain ⟨f, ts1⟩ := p
        have hg1 : Good ts1 := hg.of_consumes ((PS.ih_all n).fn _ _ _ rfl hm)
        rw [key (by simp)]
        simp only [liftP, bind_ok]
        exact fl_tail ih acc _ ts1 hg1 hne
    case openParen =>
      simp only [headType_cons, hd_cons, beq_self_eq_true, if_true, reduceCtorEq, beq_iff_eq, if_false] at hne ⊢
      rw [eat_eq _ _ hg.wf]
      cases he : eat .openParen (⟨.openParen, v⟩ :: r) with
      | error k => simp [liftF, bind_err]
      | ok ts1 =>
        have hg1 : Good ts1 := hg.of_eat he
        simp only [he] at hne
        simp only [bind_ok]
        cases hm : parseAdd n ts1 with
        | error k =>
          have hk : k ≠ .fuel := by rintro rfl; simp [hm] at hne
          rw [ih.add ts1 hg1 (by rw [hm]; simpa using hk)]
          simp [hm, liftP, liftF, bind_err]
        | ok p =>
          obtain ⟨e, ts2⟩ := p
          have hg2 : Good ts2 := hg1.of_consumes ((PS.ih_all n).add _ _ _ hm)
          rw [ih.add ts1 hg1 (by simp [hm]), hm]
          simp only [hm] at hne
          simp only [liftP, bind_ok]
          rw [eat_eq _ ts2 hg2.wf]
          cases he2 : eat .closeParen ts2 with
          | error k => simp [liftF, bind_err]
          | ok ts3 =>
            have hg3 : Good ts3 := hg2.of_eat he2
            simp only [he2] at hne
            simp only [bind_ok]
            exact fl_tail ih acc _ ts3 hg3 hne
    all_goals simp [headType_cons, liftF, errOf, bind_err]

theorem factors_step (ts : List Tok) (hg : Good ts) (hne : parseFactors (n + 1) ts ≠ .error .fuel) :
    ExpressionParser_parse_factors (n + 1 + 1) (stOf ts) = liftP (parseFactors (n + 1) ts) := by
  obtain ⟨-, -, -, -, -, -, hExp, -⟩ := tt_consts
  rw [parseFactors] at hne ⊢
  rw [ExpressionParser_parse_factors]
  simp only []
  have key := ih.fl [] ts none hg
  simp only [List.reverse_nil] at key
  cases hfl : factorsLoop n [] ts with
  | error k =>
    have hk : k ≠ .fuel := by rintro rfl; simp [hfl] at hne
    rw [key (by rw [hfl]; simpa using hk)]
    simp [hfl, liftF, liftP, bind_err]
  | ok p =>
    obtain ⟨rev, ts1⟩ := p
    have hg1 : Good ts1 := hg.of_consumes ((PS.ih_all n).fl _ _ _ _ hfl)
    rw [key (by simp [hfl]), hfl]
    simp only [hfl] at hne
    simp only [liftF, bind_ok]
    cases rev with
    | nil => simp [strLen, liftP, errOf]
    | cons last before =>
      have hlen : ((strLen ((last :: before).reverse)) == (0 : Int)) = false := by
        simp [strLen]; omega
      simp only [hlen, Bool.false_eq_true, if_false, check_eq, set_is_exp, Bool.false_and, bind_ok] at hne ⊢
      cases hx : isExpTok (headType ts1)
      · simp only [hx, Bool.false_eq_true, if_false, bind_ok] at hne ⊢
        rw [factors_final]
        cases hrev : (last :: before).reverse with
        | nil => simp at hrev
        | cons f0 fs => simp [liftP]
      · have hhd : headType ts1 = .exponent := by simpa [isExpTok] using hx
        simp only [hx, if_true, cur_type] at hne ⊢
        rw [eat_eq _ ts1 hg1.wf, hhd]
        cases he : eat .exponent ts1 with
        | error k => simp [liftP, bind_err]
        | ok ts2 =>
          have hg2 : Good ts2 := hg1.of_eat he
          simp only [he] at hne
          simp only [bind_ok, check_eq, set_first_unary, Bool.false_and, Bool.false_eq_true, if_false]
          cases hf2 : firstUnary (headType ts2)
          · simp [liftP, errOf, bind_err]
          · simp only [Bool.not_true, Bool.false_eq_true, if_false, hf2] at hne ⊢
            cases hm2 : parseUnary n ts2 with
            | error k =>
              have hk : k ≠ .fuel := by rintro rfl; simp [hm2] at hne
              rw [ih.unary ts2 hg2 (by rw [hm2]; simpa using hk)]
              simp [hm2, liftP, bind_err]
            | ok q =>
              obtain ⟨right, ts3⟩ := q
              rw [ih.unary ts2 hg2 (by simp [hm2]), hm2]
              simp only [liftP, bind_ok, List.reverse_cons, listIdx_last, listSet_last, optUse_some]
              rw [factors_final]
              cases hrev : before.reverse ++ [Ex.bin 0 .pow last right] with
              | nil => simp at hrev
              | cons f0 fs => simp [liftP, hrev]

end step

/-- the translated `parse_*` methods at fuel `n + 1` are the model's at fuel `n`, for every `n` -/
theorem ag_all : ∀ n, AG n
  | 0 => ag_zero
  | n + 1 =>
    have ih := ag_all n
    { add := add_step ih, addL := addL_step ih, mult := mult_step ih, multL := multL_step ih,
      exp := exp_step ih, unary := unary_step ih, fl := fun acc ts r => fl_step ih acc ts r,
      factors := factors_step ih, fn := fn_step ih }

end Mathy.SrcAgree
