/-
tree.py library methods used by the rule classifiers, translated from the live source, equal the
run-time library's definitions (Model/PyRt.lean): `get_root` (a `while` loop; the fuel depth + 1 is
proved sufficient) and `get_sibling` (node `==` is identity, i.e. same position).
-/
import Mathy.Gen.PySrcTree
namespace Mathy.SrcAgree
open Mathy.Py Mathy.Gen.Src

theorem get_root_loop_spec : ∀ (k : Ctx) (e : Ex) (fuel : Nat), k.length + 1 ≤ fuel →
    BinaryTreeNode_get_root_loop2 fuel (some ⟨k, e⟩) = some ⟨[], plug k e⟩ := by
  intro k
  induction k with
  | nil =>
    intro e fuel hf
    obtain ⟨m, rfl⟩ : ∃ m, fuel = m + 1 := ⟨fuel - 1, by omega⟩
    simp [BinaryTreeNode_get_root_loop2, Ref.parent, Ref.truthy, plug]
  | cons f k ih =>
    intro e fuel hf
    obtain ⟨m, rfl⟩ : ∃ m, fuel = m + 1 := ⟨fuel - 1, by omega⟩
    simp only [List.length_cons] at hf
    simp only [BinaryTreeNode_get_root_loop2, Ref.parent, Ref.truthy, Option.isSome_some, if_true, plug]
    exact ih (f.fill e) m (by omega)

/-- **`get_root()` as translated from tree.py** walks to the node without a parent -/
theorem get_root_agree (r : Ref) : BinaryTreeNode_get_root r = Ref.get_root r := by
  rcases r with _ | ⟨k, e⟩
  · simp [BinaryTreeNode_get_root, BinaryTreeNode_get_root_loop2, Ref.depth, Ref.get_root, Ref.parent, Ref.truthy]
  · simp only [BinaryTreeNode_get_root, Ref.depth, Ref.get_root]
    exact get_root_loop_spec k e _ (Nat.le_refl _)

/-- **`get_sibling()` as translated from tree.py** -/
theorem get_sibling_agree (r : Ref) : BinaryTreeNode_get_sibling r = Ref.get_sibling r := by
  rcases r with _ | ⟨k, e⟩
  · rfl
  · cases k with
    | nil => rfl
    | cons f k =>
      cases f with
      | binL t o rr =>
        simp [BinaryTreeNode_get_sibling, Ref.parent, Ref.truthy, Ref.left, Ref.right, Ref.get_sibling, Frame.fill]
      | binR t o l =>
        simp [BinaryTreeNode_get_sibling, Ref.parent, Ref.truthy, Ref.left, Ref.right, Ref.get_sibling, Frame.fill]
      | un t o =>
        simp [BinaryTreeNode_get_sibling, Ref.parent, Ref.truthy, Ref.left, Ref.right, Ref.get_sibling, Frame.fill]

end Mathy.SrcAgree
