/-
Helper lemmas for `ParserComplete.lean`: token-class facts, first tokens of derivations.
-/
import Mathy.Spec.Grammar
namespace Mathy
namespace PC

/-! ### token-type facts -/

def primStart (t : TT) : Bool := t == .variable || t == .function || t == .openParen
def unaryStart (t : TT) : Bool := primStart t || t == .constant || t == .minus

def contE (t : TT) : Bool := !firstFactor t && !isExpTok t
def contM (t : TT) : Bool := contE t && !isMultTok t
def contA (t : TT) : Bool := contM t && !isAddTok t
def contQ (t : TT) : Bool := contA t && !isEqualTok t

theorem primStart_firstFactor : ∀ t, primStart t = true → firstFactor t = true := by
  intro t; cases t <;> decide
theorem primStart_unaryStart : ∀ t, primStart t = true → unaryStart t = true := by
  intro t; cases t <;> decide
theorem unaryStart_firstUnary : ∀ t, unaryStart t = true → firstUnary t = true := by
  intro t; cases t <;> decide
theorem contM_contE : ∀ t, contM t = true → contE t = true := by
  intro t; cases t <;> decide
theorem contA_contM : ∀ t, contA t = true → contM t = true := by
  intro t; cases t <;> decide
theorem contQ_contA : ∀ t, contQ t = true → contA t = true := by
  intro t; cases t <;> decide
theorem contE_ff : ∀ t, contE t = true → firstFactor t = false := by
  intro t; cases t <;> decide
theorem contE_exp : ∀ t, contE t = true → isExpTok t = false := by
  intro t; cases t <;> decide
theorem contM_mult : ∀ t, contM t = true → isMultTok t = false := by
  intro t; cases t <;> decide
theorem contA_add : ∀ t, contA t = true → isAddTok t = false := by
  intro t; cases t <;> decide
theorem contQ_eq : ∀ t, contQ t = true → isEqualTok t = false := by
  intro t; cases t <;> decide
theorem multTok_contE : ∀ t, isMultTok t = true → contE t = true := by
  intro t; cases t <;> decide
theorem addTok_contM : ∀ t, isAddTok t = true → contM t = true := by
  intro t; cases t <;> decide
theorem eqTok_contA : ∀ t, isEqualTok t = true → contA t = true := by
  intro t; cases t <;> decide

/-! ### list heads -/

theorem headType_cons (t : Tok) (l : List Tok) : headType (t :: l) = t.type := rfl

def StartsWith (P : TT → Bool) (ts : List Tok) : Prop := ∃ t tl, ts = t :: tl ∧ P t.type = true

theorem StartsWith.head {P : TT → Bool} {ts : List Tok} (h : StartsWith P ts) (r : List Tok) :
    P (headType (ts ++ r)) = true := by
  obtain ⟨t, tl, rfl, h⟩ := h; simpa [headType] using h

theorem StartsWith.ne_nil {P : TT → Bool} {ts : List Tok} (h : StartsWith P ts) : ts ≠ [] := by
  obtain ⟨t, tl, rfl, _⟩ := h; simp

theorem StartsWith.append {P : TT → Bool} {ts : List Tok} (h : StartsWith P ts) (r : List Tok) :
    StartsWith P (ts ++ r) := by
  obtain ⟨t, tl, rfl, h⟩ := h; exact ⟨t, tl ++ r, rfl, h⟩

theorem StartsWith.mono {P Q : TT → Bool} (hpq : ∀ t, P t = true → Q t = true) {ts : List Tok}
    (h : StartsWith P ts) : StartsWith Q ts := by
  obtain ⟨t, tl, rfl, h⟩ := h; exact ⟨t, tl, rfl, hpq _ h⟩

theorem startsWith_cons {P : TT → Bool} (t : Tok) (tl : List Tok) (h : P t.type = true) :
    StartsWith P (t :: tl) := ⟨t, tl, rfl, h⟩

theorem eat_cons {t : Tok} {ty : TT} (l : List Tok) (h : t.type = ty) (hne : ty ≠ .eof) :
    eat ty (t :: l) = .ok l := by
  simp [eat, headType, advance, h, hne]

/-! ### endsClosed -/

theorem endsClosed_append (a b : List Tok) (hb : b ≠ []) :
    G.endsClosed (a ++ b) = G.endsClosed b := by
  unfold G.endsClosed
  rw [List.getLast?_append]
  cases h : b.getLast? with
  | none => simp [List.getLast?_eq_none_iff] at h; exact absurd h hb
  | some t => simp

theorem endsClosed_cons (t : Tok) (b : List Tok) (hb : b ≠ []) :
    G.endsClosed (t :: b) = G.endsClosed b := endsClosed_append [t] b hb

/-! ### first tokens of derivations (no induction needed) -/

theorem hd_Prim {ts e} (h : G.Prim ts e) : StartsWith primStart ts := by
  cases h with
  | var t h => exact startsWith_cons _ _ (by simp [primStart, h])
  | fn f o c hf ho hc a => exact startsWith_cons _ _ (by simp [primStart, hf])
  | paren o c ho hc a => exact startsWith_cons _ _ (by simp [primStart, ho])

theorem hd_PrimSeq {ts es} (h : G.PrimSeq ts es) : StartsWith primStart ts := by
  cases h with
  | one a => exact hd_Prim a
  | cons a b => exact (hd_Prim a).append _

theorem hd_Factors {ts e} (h : G.Factors ts e) : StartsWith primStart ts := by
  cases h with
  | plain a => exact hd_PrimSeq a
  | pow x hx a b c => exact (hd_PrimSeq a).append _

theorem hd_UnaryE {ts e} (h : G.UnaryE ts e) : StartsWith unaryStart ts := by
  cases h with
  | lit c q h => exact startsWith_cons _ _ (by simp [unaryStart, h.1])
  | negLit m c q hm h => exact startsWith_cons _ _ (by simp [unaryStart, hm])
  | fact c b q h hb => exact startsWith_cons _ _ (by simp [unaryStart, h.1])
  | negFact m c b q hm h hb => exact startsWith_cons _ _ (by simp [unaryStart, hm])
  | litFactors c q h a => exact startsWith_cons _ _ (by simp [unaryStart, h.1])
  | negLitFactors m c q hm h a => exact startsWith_cons _ _ (by simp [unaryStart, hm])
  | factors a => exact (hd_Factors a).mono primStart_unaryStart
  | negFactors m hm a => exact startsWith_cons _ _ (by simp [unaryStart, hm])

theorem hd_ExpE {ts e} (h : G.ExpE ts e) : StartsWith unaryStart ts := by
  cases h with
  | unary a => exact hd_UnaryE a
  | pow x hx a hc b => exact (hd_UnaryE a).append _

theorem hd_MultE {ts e} (h : G.MultE ts e) : StartsWith unaryStart ts := by
  cases h with
  | mk a b => exact (hd_ExpE a).append _

theorem hd_AddE {ts e} (h : G.AddE ts e) : StartsWith unaryStart ts := by
  cases h with
  | mk a b => exact (hd_MultE a).append _

theorem hd_MultLoop {acc ts e} (h : G.MultLoop acc ts e) : ts = [] ∨ StartsWith isMultTok ts := by
  cases h with
  | done => exact .inl rfl
  | div d hd a b => exact .inr (startsWith_cons _ _ (by simp [isMultTok, hd]))
  | mul m hm a => exact .inr (startsWith_cons _ _ (by simp [isMultTok, hm]))

theorem hd_AddLoop {acc ts e} (h : G.AddLoop acc ts e) : ts = [] ∨ StartsWith isAddTok ts := by
  cases h with
  | done => exact .inl rfl
  | plus d hd a b => exact .inr (startsWith_cons _ _ (by simp [isAddTok, hd]))
  | minus m hm a b => exact .inr (startsWith_cons _ _ (by simp [isAddTok, hm]))

theorem hd_EqLoop {acc ts e} (h : G.EqLoop acc ts e) : ts = [] ∨ StartsWith isEqualTok ts := by
  cases h with
  | done => exact .inl rfl
  | eq d hd a b => exact .inr (startsWith_cons _ _ (by simp [isEqualTok, hd]))

/-- continuation seen by the operand of a multiplicative loop -/
theorem cont_MultLoop {acc ts e} (h : G.MultLoop acc ts e) {rest : List Tok}
    (hr : contM (headType rest) = true) : contE (headType (ts ++ rest)) = true := by
  rcases hd_MultLoop h with rfl | h
  · simpa using contM_contE _ hr
  · exact multTok_contE _ (h.head rest)

theorem cont_AddLoop {acc ts e} (h : G.AddLoop acc ts e) {rest : List Tok}
    (hr : contA (headType rest) = true) : contM (headType (ts ++ rest)) = true := by
  rcases hd_AddLoop h with rfl | h
  · simpa using contA_contM _ hr
  · exact addTok_contM _ (h.head rest)

theorem cont_EqLoop {acc ts e} (h : G.EqLoop acc ts e) {rest : List Tok}
    (hr : contQ (headType rest) = true) : contA (headType (ts ++ rest)) = true := by
  rcases hd_EqLoop h with rfl | h
  · simpa using contQ_contA _ hr
  · exact eqTok_contA _ (h.head rest)

end PC
end Mathy
