/-
History independence of the TRANSLATED parser object (C12, C10 "no sticky state"): the caching front
`ExpressionParser.parse / tokenize / clear_cache` as translated from the live parser.py.
-/
import Mathy.Proofs.PySrcAgreeParse6
set_option linter.unusedSimpArgs false
namespace Mathy.SrcAgree
open Mathy.Py Mathy.Gen.Src

/-! ### dicts as association lists -/

theorem dictGet_filter_ne {β : Type} (d : List (List Char × β)) (k k' : List Char) (h : (k == k') = false) :
    dictGet (d.filter (fun p => !(p.1 == k))) k' = dictGet d k' := by
  induction d with
  | nil => rfl
  | cons p d ih =>
    obtain ⟨a, v⟩ := p
    by_cases hak : (a == k) = true
    · have hak' : (a == k') = false := by
        have : a = k := by simpa using hak
        subst this; exact h
      simp [List.filter, hak, dictGet, hak', ih]
    · have hak2 : (a == k) = false := by simpa using hak
      simp only [List.filter, hak2, Bool.not_false, dictGet]
      by_cases h2 : (a == k') = true
      · simp [h2]
      · simp [h2, ih]

theorem dictGet_set {β : Type} (d : List (List Char × β)) (k k' : List Char) (v : β) :
    dictGet (pyDictSet d k v) k' = if k == k' then .ok v else dictGet d k' := by
  unfold pyDictSet
  by_cases h : (k == k') = true
  · simp [dictGet, h]
  · have h' : (k == k') = false := by simpa using h
    simp only [dictGet, h', Bool.false_eq_true, if_false]
    exact dictGet_filter_ne d k k' h'

theorem dictHas_iff {β : Type} (d : List (List Char × β)) (k : List Char) :
    pyDictHas d k = true ↔ ∃ v, dictGet d k = .ok v := by
  induction d with
  | nil => simp [pyDictHas, dictGet]
  | cons p d ih =>
    obtain ⟨a, v⟩ := p
    by_cases h : (a == k) = true
    · simp [pyDictHas, dictGet, h]
    · have h' : (a == k) = false := by simpa using h
      simp [pyDictHas, dictGet, h', ih]

theorem dictGet_of_not_has {β : Type} (d : List (List Char × β)) (k : List Char) (h : pyDictHas d k = false) :
    dictGet d k = .error .KeyError := by
  induction d with
  | nil => rfl
  | cons p d ih =>
    obtain ⟨a, v⟩ := p
    simp only [pyDictHas, Bool.or_eq_false_iff] at h
    simp [dictGet, h.1, ih h.2]

/-! ### the invariant: every cache entry is what a fresh parser answers -/

structure CacheInv (o : ParserObj) : Prop where
  toks : ∀ k v, dictGet o.tokens_cache k = .ok v → Tokenizer_tokenize true k = .ok v
  trees : ∀ k e, dictGet o.parse_cache k = .ok e → ∀ st, srcParseText st k = .ok e

theorem inv_init : CacheInv ExpressionParser_init := by
  constructor <;> intro k v h <;> simp [ExpressionParser_init, ExpressionParser_clear_cache, dictGet] at h

theorem inv_clear (o : ParserObj) : CacheInv (ExpressionParser_clear_cache o) := by
  constructor <;> intro k v h <;> simp [ExpressionParser_clear_cache, dictGet] at h

theorem inv_core (o : ParserObj) (st : ParserState) (h : CacheInv o) : CacheInv { o with core := st } :=
  ⟨h.toks, h.trees⟩

/-- `tokenize` on an object that satisfies the invariant answers like a fresh tokenizer and keeps the
invariant -/
theorem tokenize_fresh (o : ParserObj) (s : List Char) (h : CacheInv o) :
    (ExpressionParser_tokenize o s).1 = Tokenizer_tokenize true s ∧ CacheInv (ExpressionParser_tokenize o s).2 ∧
    (ExpressionParser_tokenize o s).2.core = o.core ∧ (ExpressionParser_tokenize o s).2.parse_cache = o.parse_cache := by
  unfold ExpressionParser_tokenize
  cases hh : pyDictHas o.tokens_cache s
  · simp only [Bool.not_false, if_true]
    cases ht : Tokenizer_tokenize true s with
    | error e => exact ⟨rfl, h, rfl, rfl⟩
    | ok v =>
      refine ⟨by simp [dictGet_set], ⟨?_, h.trees⟩, rfl, rfl⟩
      intro k v' hk
      simp only [dictGet_set] at hk
      by_cases hks : (s == k) = true
      · have : s = k := by simpa using hks
        subst this
        simp only [hks, if_true, Except.ok.injEq] at hk
        subst hk; exact ht
      · simp only [hks, if_false] at hk
        exact h.toks k v' hk
  · simp only [Bool.not_true, Bool.false_eq_true, if_false]
    obtain ⟨v, hv⟩ := (dictHas_iff _ _).1 hh
    exact ⟨by rw [hv, h.toks s v hv], h, by trivial, by trivial⟩

/-- `parse` on an object that satisfies the invariant answers like a fresh parser, whatever state the
parsing fields are in, and keeps the invariant -/
theorem parse_fresh (o : ParserObj) (s : List Char) (h : CacheInv o) :
    (ExpressionParser_parse o s).1 = srcParseText o.core s ∧ CacheInv (ExpressionParser_parse o s).2 := by
  unfold ExpressionParser_parse
  cases hh : pyDictHas o.parse_cache s
  · simp only [Bool.false_eq_true, if_false]
    obtain ⟨ht1, ht2, ht3, ht4⟩ := tokenize_fresh o s h
    generalize hr : ExpressionParser_tokenize o s = r at ht1 ht2 ht3 ht4
    obtain ⟨res, o1⟩ := r
    simp only at ht1 ht2 ht3 ht4
    subst ht1
    unfold srcParseText
    cases htk : Tokenizer_tokenize true s with
    | error e => exact ⟨rfl, ht2⟩
    | ok toks =>
      simp only [ht3]
      cases hp : ExpressionParser__parse o.core toks with
      | error e => exact ⟨by simp [Except.map], ht2⟩
      | ok r5 =>
        obtain ⟨e, core'⟩ := r5
        refine ⟨by simp [dictGet_set, Except.map], ⟨ht2.toks, ?_⟩⟩
        intro k e' hk st
        simp only [dictGet_set] at hk
        by_cases hks : (s == k) = true
        · have : s = k := by simpa using hks
          subst this
          simp only [hks, if_true, Except.ok.injEq] at hk
          subst hk
          rw [parseText_agree st s, ← parseText_agree o.core s]
          unfold srcParseText
          simp [htk, hp, Except.map]
        · simp only [hks, if_false] at hk
          exact ht2.trees k e' hk st
  · simp only [if_true]
    obtain ⟨e, he⟩ := (dictHas_iff _ _).1 hh
    exact ⟨by rw [he, h.trees s e he o.core], h⟩

/-! ### histories -/

/-- what a client does with one long-lived parser object -/
inductive COp where
  | parse (s : List Char)
  | tokenize (s : List Char)
  | clear

inductive CAns where
  | tree (r : Except PyErr Ex)
  | toks (r : Except PyErr (List Token))
  | unit

def cstep (o : ParserObj) : COp → CAns × ParserObj
  | .parse s => let r := ExpressionParser_parse o s; (.tree r.1, r.2)
  | .tokenize s => let r := ExpressionParser_tokenize o s; (.toks r.1, r.2)
  | .clear => (.unit, ExpressionParser_clear_cache o)

/-- a history: before every operation the parsing fields (`tokens`, `current_token`) are replaced by an
ARBITRARY state — whatever an earlier, possibly failed, `_parse` left behind -/
def crun (o : ParserObj) : List (ParserState × COp) → List CAns
  | [] => []
  | (st, op) :: rest => let r := cstep { o with core := st } op; r.1 :: crun r.2 rest

theorem inv_step (o : ParserObj) (op : COp) (h : CacheInv o) : CacheInv (cstep o op).2 := by
  cases op with
  | parse s => exact (parse_fresh o s h).2
  | tokenize s => exact (tokenize_fresh o s h).2.1
  | clear => exact inv_clear o

/-- every answer of every history is the answer of a fresh parser -/
theorem crun_fresh : ∀ (hist : List (ParserState × COp)) (o : ParserObj), CacheInv o →
    crun o hist = hist.map (fun p => match p.2 with
      | .parse s => .tree (outcomeOf s (parseText s))
      | .tokenize s => .toks (Tokenizer_tokenize true s)
      | .clear => .unit)
  | [], _, _ => rfl
  | (st, op) :: rest, o, h => by
    have h' := inv_core o st h
    simp only [crun, List.map_cons]
    rw [crun_fresh rest _ (inv_step _ op h')]
    congr 1
    cases op with
    | parse s => simp only [cstep]; rw [(parse_fresh _ s h').1, parseText_agree]
    | tokenize s => simp only [cstep]; rw [(tokenize_fresh _ s h').1]
    | clear => rfl

end Mathy.SrcAgree
