/-
Helper development for C12: an invariant of the parser object's caches and heap that makes
every answer equal to the fresh answer.
-/
import Mathy.Model.ParserObj
namespace Mathy

/-- invariant relating the caches, the heap of list objects and the references handed out -/
structure PInv (st : PState) (handed : List Nat) : Prop where
  tok : ∀ s (r : Nat), lookup s st.tokCache = some r →
    r < st.heap.length ∧ tokenize false s = .ok (st.heap.getD r []) ∧ r ∉ handed
  parse : ∀ s e, lookup s st.parseCache = some e → parseText s = .tree e
  handed : ∀ r ∈ handed, (r : Nat) < st.heap.length

theorem PInv.init : PInv PState.init [] := by
  constructor <;> simp [PState.init, lookup]

theorem PInv.clear {st handed} (h : PInv st handed) : PInv st.clearOp handed := by
  constructor
  · simp [PState.clearOp, lookup]
  · simp [PState.clearOp, lookup]
  · exact h.handed

/-- overwriting a list object the client holds does not disturb the caches -/
theorem PInv.setHanded {st handed} (h : PInv st handed) (r : Nat) (l : List Tok) (hr : r ∈ handed) :
    PInv { st with heap := st.heap.set r l } handed := by
  constructor
  · intro s r' hl
    obtain ⟨h1, h2, h3⟩ := h.tok s r' hl
    have hne : r ≠ r' := by rintro rfl; exact h3 hr
    refine ⟨by simpa using h1, ?_, h3⟩
    rw [h2]
    simp [List.getD_eq_getElem?_getD, List.getElem?_set_ne hne]
  · exact h.parse
  · intro r' hr'; simpa using h.handed r' hr'

theorem PInv.dropLast {st : PState} {handed : List Nat} {r : Nat} (h : PInv st (handed ++ [r])) : PInv st handed := by
  constructor
  · intro s r' hl
    obtain ⟨h1, h2, h3⟩ := h.tok s r' hl
    exact ⟨h1, h2, fun hm => h3 (by simp [hm])⟩
  · exact h.parse
  · intro r' hr'; exact h.handed r' (by simp [hr'])

theorem PInv.consume {st handed} (h : PInv st handed) (r : Nat) (n : Nat) (hr : r ∈ handed) :
    PInv (st.consumeOp r n) handed :=
  h.setHanded r _ hr

theorem tokenizeOp_list {st : PState} {handed : List Nat} {s : List Char} {st' : PState} {r : Nat} (h : PInv st handed)
    (he : st.tokenizeOp s = (st', .list r)) :
    PInv st' (handed ++ [r]) ∧ tokenize false s = .ok (st'.heap.getD r []) := by
  unfold PState.tokenizeOp at he
  cases hl : lookup s st.tokCache with
  | some r0 =>
    rw [hl] at he
    simp only [PState.alloc, Prod.mk.injEq, TokOut.list.injEq] at he
    obtain ⟨rfl, rfl⟩ := he
    obtain ⟨h1, h2, h3⟩ := h.tok s r0 hl
    refine ⟨⟨?_, h.parse, ?_⟩, ?_⟩
    · intro s' r' hl'
      obtain ⟨k1, k2, k3⟩ := h.tok s' r' hl'
      refine ⟨by simp; omega, ?_, ?_⟩
      · rw [k2]; simp [List.getD_eq_getElem?_getD, List.getElem?_append_left k1]
      · simp only [List.mem_append, List.mem_singleton, not_or]
        exact ⟨k3, by omega⟩
    · intro r' hr'
      simp only [List.mem_append, List.mem_singleton] at hr'
      rcases hr' with hr' | rfl
      · have := h.handed r' hr'; simp; omega
      · simp
    · rw [h2]; simp [List.getD_eq_getElem?_getD]
  | none =>
    rw [hl] at he
    cases ht : tokenize false s with
    | error c => rw [ht] at he; simp at he
    | ok ts =>
      rw [ht] at he
      simp only [PState.alloc, Prod.mk.injEq, TokOut.list.injEq] at he
      obtain ⟨rfl, rfl⟩ := he
      refine ⟨⟨?_, h.parse, ?_⟩, ?_⟩
      · intro s' r' hl'
        simp only [lookup] at hl'
        split at hl'
        · next heq =>
          simp only [Option.some.injEq] at hl'
          subst hl' heq
          refine ⟨by simp, ?_, ?_⟩
          · rw [ht]; simp [List.getD_eq_getElem?_getD]
          · simp only [List.mem_append, List.mem_singleton, not_or]
            refine ⟨fun hm => ?_, by simp⟩
            have := h.handed _ hm; omega
        · obtain ⟨k1, k2, k3⟩ := h.tok s' r' hl'
          refine ⟨by simp; omega, ?_, ?_⟩
          · rw [k2]
            simp [List.getD_eq_getElem?_getD, List.getElem?_append_left k1]
          · simp only [List.mem_append, List.mem_singleton, not_or]
            exact ⟨k3, by simp; omega⟩
      · intro r' hr'
        simp only [List.mem_append, List.mem_singleton] at hr'
        rcases hr' with hr' | rfl
        · have := h.handed r' hr'; simp; omega
        · simp
      · simp [List.getD_eq_getElem?_getD]

theorem tokenizeOp_bad {st : PState} {s : List Char} {st' : PState} {c : Char} (he : st.tokenizeOp s = (st', TokOut.badChar c)) :
    st' = st ∧ tokenize false s = .error c := by
  unfold PState.tokenizeOp at he
  cases hl : lookup s st.tokCache with
  | some r0 => rw [hl] at he; simp [PState.alloc] at he
  | none =>
    rw [hl] at he
    cases ht : tokenize false s with
    | error c' =>
      rw [ht] at he
      simp only [Prod.mk.injEq, TokOut.badChar.injEq] at he
      obtain ⟨rfl, rfl⟩ := he
      exact ⟨rfl, rfl⟩
    | ok ts => rw [ht] at he; simp [PState.alloc] at he

theorem parseText_of_ok {s : List Char} {ts : List Tok} {e : Ex} (h : tokenize false s = .ok ts)
    (hp : parseToks ts = .ok e) : parseText s = .tree e := by
  simp [parseText, h, hp]

theorem parseText_of_error {s : List Char} {ts : List Tok} {e : PErr} (h : tokenize false s = .ok ts)
    (hp : parseToks ts = .error e) : parseText s = .perr e := by
  simp [parseText, h, hp]

theorem parseOp_spec {st : PState} {handed : List Nat} {s : List Char} {st' : PState} {o : ParseOut}
    (h : PInv st handed) (he : st.parseOp s = (st', o)) :
    PInv st' handed ∧ o = parseText s := by
  unfold PState.parseOp at he
  cases hl : lookup s st.parseCache with
  | some e =>
    rw [hl] at he
    simp only [Prod.mk.injEq] at he
    obtain ⟨rfl, rfl⟩ := he
    exact ⟨h, (h.parse s e hl).symm⟩
  | none =>
    rw [hl] at he
    rcases hto : st.tokenizeOp s with ⟨st1, out⟩
    rw [hto] at he
    cases out with
    | badChar c =>
      simp only [Prod.mk.injEq] at he
      obtain ⟨rfl, rfl⟩ := he
      obtain ⟨rfl, ht⟩ := tokenizeOp_bad hto
      exact ⟨h, by simp [parseText, ht]⟩
    | list r =>
      obtain ⟨hinv, ht⟩ := tokenizeOp_list h hto
      have hinv2 : PInv { st1 with heap := st1.heap.set r [] } handed :=
        (hinv.setHanded r [] (by simp)).dropLast
      simp only at he
      cases hp : parseToks (st1.heap.getD r []) with
      | ok e =>
        have hpt := parseText_of_ok ht hp
        rw [hp] at he
        simp only [Prod.mk.injEq] at he
        obtain ⟨rfl, rfl⟩ := he
        refine ⟨⟨hinv2.tok, ?_, hinv2.handed⟩, hpt.symm⟩
        intro s' e' hl'
        simp only [lookup] at hl'
        split at hl'
        · next heq =>
          simp only [Option.some.injEq] at hl'
          subst hl' heq
          exact hpt
        · exact hinv2.parse s' e' hl'
      | error e =>
        have hpt := parseText_of_error ht hp
        rw [hp] at he
        simp only [Prod.mk.injEq] at he
        obtain ⟨rfl, rfl⟩ := he
        exact ⟨hinv2, hpt.symm⟩

/-- what a fresh parser answers to an operation -/
def freshAnswer : POp → POut
  | .parse s => .parsed (parseText s)
  | .tokenize s =>
    match tokenize false s with
    | .ok ts => .tokens ts
    | .error c => .badChar c
  | _ => .unit

theorem runOps_length (ops : List POp) : ∀ (st : PState) (handed : List Nat),
    (runOps st handed ops).length = ops.length := by
  induction ops with
  | nil => intro st handed; simp [runOps]
  | cons op ops ih =>
    intro st handed
    cases op with
    | parse s => simp [runOps, ih]
    | tokenize s =>
      simp only [runOps]
      split <;> simp [ih]
    | clear => simp [runOps, ih]
    | consume i n =>
      simp only [runOps]
      split <;> simp [ih]

theorem runOps_fresh (ops : List POp) : ∀ (st : PState) (handed : List Nat), PInv st handed →
    runOps st handed ops = ops.map freshAnswer := by
  induction ops with
  | nil => intro st handed _; simp [runOps]
  | cons op ops ih =>
    intro st handed hinv
    cases op with
    | parse s =>
      simp only [runOps, List.map_cons, freshAnswer]
      rcases hp : st.parseOp s with ⟨st', o⟩
      obtain ⟨h1, h2⟩ := parseOp_spec hinv hp
      simp only [ih st' handed h1, h2]
    | tokenize s =>
      simp only [runOps, List.map_cons, freshAnswer]
      rcases hto : st.tokenizeOp s with ⟨st', out⟩
      cases out with
      | list r =>
        obtain ⟨h1, h2⟩ := tokenizeOp_list hinv hto
        simp only [h2, ih st' _ h1]
      | badChar c =>
        obtain ⟨rfl, h2⟩ := tokenizeOp_bad hto
        simp only [h2, ih st' _ hinv]
    | clear =>
      simp only [runOps, List.map_cons, freshAnswer]
      rw [ih _ _ hinv.clear]
    | consume i n =>
      simp only [runOps, List.map_cons, freshAnswer]
      cases hh : handed[i]? with
      | none => simp only [ih _ _ hinv]
      | some r =>
        have hr : r ∈ handed := List.mem_of_getElem? hh
        simp only [ih _ _ (hinv.consume r n hr)]

end Mathy
