/-
The model's parser IS the repository's parser (translated source) — part 2: the invariant on
token lists, the simultaneous agreement statement `AG n`, and the step lemmas for the
additive / multiplicative levels.

Fuel: the translated functions consume one unit more than the model's (the `while found` loop of
`parse_factors` re-enters once to see `found == False`), so the statement relates the translated
function at fuel `n + 1` to the model at fuel `n`, whenever the model does not run out of fuel.
-/
import Mathy.Proofs.PySrcAgreeParse
set_option linter.unusedSimpArgs false
namespace Mathy.SrcAgree
open Mathy.Py Mathy.Gen.Src Mathy.PS

/-- what the tokenizer guarantees about its tokens: a Function token names a registered function,
and only the end marker has an empty text -/
def TokOK (ts : List Tok) : Prop :=
  ∀ t ∈ ts, (t.type = .function → dictGet Tokenizer_function_table t.value = .ok .sgn) ∧
    (t.type ≠ .eof → t.value ≠ [])

structure Good (ts : List Tok) : Prop where
  wf : WF ts
  ok : TokOK ts

theorem Good.of_consumes {inp rest : List Tok} {P : List Tok → Prop} (h : Good inp) (hc : Consumes inp rest P) :
    Good rest := by
  refine ⟨h.wf.of_consumes hc, ?_⟩
  obtain ⟨ts, rfl, -, -⟩ := hc
  intro t ht
  exact h.ok t (by simp [ht])

theorem Good.of_eat {ty : TT} {ts ts' : List Tok} (h : Good ts) (he : eat ty ts = .ok ts') : Good ts' := by
  obtain ⟨t, rfl, -, hte⟩ := eat_ok he
  exact ⟨h.wf.tail hte, fun x hx => h.ok x (by simp [hx])⟩

/-- a loop result (the carried variables are `(self, exp)`) -/
def liftL : PRes → Except PyErr (ParserState × Ex)
  | .ok (e, ts) => .ok (stOf ts, e)
  | .error k => .error (errOf k)

/-- the result of the `while found` loop of `parse_factors`: `(right, factors, self, found)` -/
def liftF : Except PErr (List Ex × List Tok) → Except PyErr (Option Ex × List Ex × ParserState × Bool)
  | .ok (rev, ts) => .ok (none, rev.reverse, stOf ts, false)
  | .error k => .error (errOf k)

/-- simultaneous agreement at fuel `n` (translated function at `n + 1`) -/
structure AG (n : Nat) : Prop where
  add : ∀ ts, Good ts → parseAdd n ts ≠ .error .fuel →
    ExpressionParser_parse_add (n + 1) (stOf ts) = liftP (parseAdd n ts)
  addL : ∀ acc ts, Good ts → addLoop n acc ts ≠ .error .fuel →
    ExpressionParser_parse_add_while1 (n + 1) (stOf ts) acc = liftL (addLoop n acc ts)
  mult : ∀ ts, Good ts → parseMult n ts ≠ .error .fuel →
    ExpressionParser_parse_mult (n + 1) (stOf ts) = liftP (parseMult n ts)
  multL : ∀ acc ts, Good ts → multLoop n acc ts ≠ .error .fuel →
    ExpressionParser_parse_mult_while1 (n + 1) (stOf ts) acc = liftL (multLoop n acc ts)
  exp : ∀ ts, Good ts → parseExponent n ts ≠ .error .fuel →
    ExpressionParser_parse_exponent (n + 1) (stOf ts) = liftP (parseExponent n ts)
  unary : ∀ ts, Good ts → parseUnary n ts ≠ .error .fuel →
    ExpressionParser_parse_unary (n + 1) (stOf ts) = liftP (parseUnary n ts)
  fl : ∀ acc ts r, Good ts → factorsLoop n acc ts ≠ .error .fuel →
    ExpressionParser_parse_factors_while1 (n + 1) (stOf ts) r true acc.reverse = liftF (factorsLoop n acc ts)
  factors : ∀ ts, Good ts → parseFactors n ts ≠ .error .fuel →
    ExpressionParser_parse_factors (n + 1) (stOf ts) = liftP (parseFactors n ts)
  fn : ∀ ts, Good ts → headType ts = .function → parseFunction n ts ≠ .error .fuel →
    ExpressionParser_parse_function (n + 1) (stOf ts) = liftP (parseFunction n ts)

theorem ag_zero : AG 0 := by
  constructor <;> intros <;> simp_all [parseAdd, addLoop, parseMult, multLoop, parseExponent,
    parseUnary, factorsLoop, parseFactors, parseFunction]

theorem bind_err {α β : Type} (e : PyErr) (f : α → Except PyErr β) : Except.bind (.error e) f = .error e := rfl

/-- the type of the current token, as the Python attribute -/
theorem cur_type (ts : List Tok) : (stOf ts).current_token.type = tyBits (headType ts) := by
  rw [stOf_current, tokToPy_type, headType_eq_hd]

section step
variable {n : Nat} (ih : AG n)
include ih

theorem add_step (ts : List Tok) (hg : Good ts) (hne : parseAdd (n + 1) ts ≠ .error .fuel) :
    ExpressionParser_parse_add (n + 1 + 1) (stOf ts) = liftP (parseAdd (n + 1) ts) := by
  rw [parseAdd] at hne ⊢
  rw [ExpressionParser_parse_add]
  simp only [check_eq, set_first_mult, Bool.true_and]
  cases hf : firstMult (headType ts)
  · simp [liftP, errOf, bind_err]
  · simp only [Bool.not_true, Bool.false_eq_true, if_false, bind_ok, hf] at hne ⊢
    cases hm : parseMult n ts with
    | error e =>
      have he : e ≠ .fuel := by rintro rfl; simp [hm] at hne
      rw [ih.mult ts hg (by rw [hm]; simpa using he)]
      simp [hm, liftP, bind_err]
    | ok p =>
      obtain ⟨e, ts'⟩ := p
      have hg' : Good ts' := hg.of_consumes ((PS.ih_all n).mult _ _ _ hm)
      rw [ih.mult ts hg (by simp [hm]), hm]
      simp only [hm] at hne
      simp only [liftP, bind_ok]
      rw [ih.addL e ts' hg' hne]
      cases addLoop n e ts' with
      | error k => simp [liftL, liftP, bind_err]
      | ok q => obtain ⟨e2, ts2⟩ := q; simp [liftL, liftP, bind_ok]

theorem addL_step (acc : Ex) (ts : List Tok) (hg : Good ts) (hne : addLoop (n + 1) acc ts ≠ .error .fuel) :
    ExpressionParser_parse_add_while1 (n + 1 + 1) (stOf ts) acc = liftL (addLoop (n + 1) acc ts) := by
  obtain ⟨-, -, hPlus, hMinus, -⟩ := tt_consts
  rw [addLoop] at hne ⊢
  rw [ExpressionParser_parse_add_while1]
  simp only [check_eq, set_is_add, Bool.false_and, Bool.false_eq_true, if_false, bind_ok]
  cases hop : isAddTok (headType ts)
  · simp [liftL]
  · simp only [if_true, cur_type, hop] at hne ⊢
    rw [eat_eq _ ts hg.wf]
    cases he : eat (headType ts) ts with
    | error e =>
      simp [liftL, bind_err]
    | ok ts1 =>
      have hg1 : Good ts1 := hg.of_eat he
      simp only [he] at hne
      simp only [bind_ok, check_eq, set_first_mult, Bool.false_and, Bool.false_eq_true, if_false]
      cases hf : firstMult (headType ts1)
      · simp [liftL, errOf, bind_ok]
      · simp only [if_true, hf] at hne ⊢
        cases hm : parseMult n ts1 with
        | error e =>
          have he' : e ≠ .fuel := by rintro rfl; simp [hm] at hne
          rw [ih.mult ts1 hg1 (by rw [hm]; simpa using he')]
          simp [hm, liftP, liftL, bind_err]
        | ok p =>
          obtain ⟨r, ts2⟩ := p
          have hg2 : Good ts2 := hg1.of_consumes ((PS.ih_all n).mult _ _ _ hm)
          rw [ih.mult ts1 hg1 (by simp [hm]), hm]
          simp only [hm] at hne
          simp only [liftP, bind_ok, Option.isSome_some, Bool.not_true, Bool.or_self, Bool.false_eq_true, if_false,
            optUse, hPlus, hMinus, tyBits_beq]
          cases hp : headType ts == TT.plus
          · have hmn : (headType ts == TT.minus) = true := by
              simp only [isAddTok, hp, Bool.false_or] at hop; exact hop
            simp only [hp, hmn, Bool.false_eq_true, if_false, if_true, bind_ok] at hne ⊢
            exact ih.addL _ ts2 hg2 hne
          · simp only [hp, if_true, bind_ok] at hne ⊢
            exact ih.addL _ ts2 hg2 hne

theorem mult_step (ts : List Tok) (hg : Good ts) (hne : parseMult (n + 1) ts ≠ .error .fuel) :
    ExpressionParser_parse_mult (n + 1 + 1) (stOf ts) = liftP (parseMult (n + 1) ts) := by
  rw [parseMult] at hne ⊢
  rw [ExpressionParser_parse_mult]
  simp only [check_eq, set_first_exp, Bool.true_and]
  cases hf : firstExp (headType ts)
  · simp [liftP, errOf, bind_err]
  · simp only [Bool.not_true, Bool.false_eq_true, if_false, bind_ok, hf] at hne ⊢
    cases hm : parseExponent n ts with
    | error e =>
      have he : e ≠ .fuel := by rintro rfl; simp [hm] at hne
      rw [ih.exp ts hg (by rw [hm]; simpa using he)]
      simp [hm, liftP, bind_err]
    | ok p =>
      obtain ⟨e, ts'⟩ := p
      have hg' : Good ts' := hg.of_consumes ((PS.ih_all n).exp _ _ _ hm)
      rw [ih.exp ts hg (by simp [hm]), hm]
      simp only [hm] at hne
      simp only [liftP, bind_ok]
      rw [ih.multL e ts' hg' hne]
      cases multLoop n e ts' with
      | error k => simp [liftL, liftP, bind_err]
      | ok q => obtain ⟨e2, ts2⟩ := q; simp [liftL, liftP, bind_ok]

theorem multL_step (acc : Ex) (ts : List Tok) (hg : Good ts) (hne : multLoop (n + 1) acc ts ≠ .error .fuel) :
    ExpressionParser_parse_mult_while1 (n + 1 + 1) (stOf ts) acc = liftL (multLoop (n + 1) acc ts) := by
  obtain ⟨-, -, -, -, hMul, hDiv, -⟩ := tt_consts
  rw [multLoop] at hne ⊢
  rw [ExpressionParser_parse_mult_while1]
  simp only [check_eq, set_is_mult, Bool.false_and, Bool.false_eq_true, if_false, bind_ok]
  cases hop : isMultTok (headType ts)
  · simp [liftL]
  · simp only [if_true, cur_type, hop] at hne ⊢
    rw [eat_eq _ ts hg.wf]
    cases he : eat (headType ts) ts with
    | error e =>
      simp [liftL, bind_err]
    | ok ts1 =>
      have hg1 : Good ts1 := hg.of_eat he
      simp only [he] at hne
      simp only [bind_ok, check_eq, set_first_exp, Bool.false_and, Bool.false_eq_true, if_false]
      cases hf : firstExp (headType ts1)
      · simp [liftL, errOf, bind_ok]
      · simp only [if_true, hf, hDiv, hMul, tyBits_beq] at hne ⊢
        cases hd : headType ts == TT.divide
        · -- multiplication: the right operand is the rest of the product
          have hml : (headType ts == TT.multiply) = true := by
            simp only [isMultTok, hd, Bool.or_false] at hop; exact hop
          simp only [hd, hml, Bool.false_eq_true, if_false, if_true] at hne ⊢
          cases hm : parseMult n ts1 with
          | error e =>
            have he' : e ≠ .fuel := by rintro rfl; simp [hm] at hne
            rw [ih.mult ts1 hg1 (by rw [hm]; simpa using he')]
            simp [hm, liftP, liftL, bind_err]
          | ok p =>
            obtain ⟨r, ts2⟩ := p
            have hg2 : Good ts2 := hg1.of_consumes ((PS.ih_all n).mult _ _ _ hm)
            rw [ih.mult ts1 hg1 (by simp [hm]), hm]
            simp only [hm] at hne
            simp only [liftP, bind_ok, Option.isNone_some, Bool.not_true, Bool.or_self, Bool.false_eq_true, if_false,
              optUse]
            exact ih.multL _ ts2 hg2 hne
        · have hml : (headType ts == TT.multiply) = false := by
            have : headType ts = .divide := by simpa using hd
            rw [this]; rfl
          simp only [hd, hml, Bool.false_eq_true, if_false, if_true] at hne ⊢
          cases hm : parseExponent n ts1 with
          | error e =>
            have he' : e ≠ .fuel := by rintro rfl; simp [hm] at hne
            rw [ih.exp ts1 hg1 (by rw [hm]; simpa using he')]
            simp [hm, liftP, liftL, bind_err]
          | ok p =>
            obtain ⟨r, ts2⟩ := p
            have hg2 : Good ts2 := hg1.of_consumes ((PS.ih_all n).exp _ _ _ hm)
            rw [ih.exp ts1 hg1 (by simp [hm]), hm]
            simp only [hm] at hne
            simp only [liftP, bind_ok, Option.isNone_some, Bool.not_true, Bool.or_self, Bool.false_eq_true, if_false,
              optUse]
            exact ih.multL _ ts2 hg2 hne

end step

end Mathy.SrcAgree
