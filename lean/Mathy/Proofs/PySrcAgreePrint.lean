/-
The model's parenthesisation predicates are the printer's (translated source).

`Gen/PySrc.lean` is regenerated on every run from the live Python source by `harness/py2lean.py`
(statement-by-statement translation over `Model/PyRt.lean`).  Each theorem below equates one
generated definition with the corresponding function of the hand-written model, for ALL inputs.
-/
import Mathy.Gen.PySrcPrint
import Mathy.Model.Print
namespace Mathy.SrcAgree
open Mathy.Py Mathy.Gen.Src

/-! ### printer predicates -/

/-- kind and side of the binary parent of a position, `none` for the root and under a unary node -/
def ctxParent : Ctx → Option (Bop × Side)
  | .binL _ p _ :: _ => some (p, .left)
  | .binR _ p _ :: _ => some (p, .right)
  | _ => none

theorem get_priority_agree (k : Ctx) (t : Nat) (o : Bop) (l r : Ex) :
    BinaryExpression_get_priority (some ⟨k, .bin t o l r⟩) = o.priority := by
  cases o <;> rfl

theorem self_parens_agree (k : Ctx) (t : Nat) (o : Bop) (l r : Ex) :
    BinaryExpression_self_parens (some ⟨k, .bin t o l r⟩) = selfParens o (ctxParent k) := by
  cases k with
  | nil => cases o <;> rfl
  | cons f k' =>
    cases f with
    | un ft fo => cases o <;> cases fo <;> rfl
    | binL ft p fr => cases o <;> cases p <;> rfl
    | binR ft p fl => cases o <;> cases p <;> rfl

theorem is_compact_product_agree (k : Ctx) (e : Ex) :
    is_compact_product (some ⟨k, e⟩) = isCompactProduct e := by
  cases e with
  | const t v => rfl
  | var t x => rfl
  | un t o c => rfl
  | bin t o l r =>
    cases o <;> try rfl
    cases l <;> try rfl
    cases r with
    | const => rfl
    | var => rfl
    | un => rfl
    | bin rt ro rl rr =>
      cases ro <;> try rfl
      cases rl <;> rfl

theorem is_compact_product_none : is_compact_product none = false := rfl

theorem power_base_needs_parens_agree (k : Ctx) (e : Ex) :
    power_base_needs_parens (some ⟨k, e⟩) = powerBaseNeedsParens e := by
  have h := is_compact_product_agree k e
  cases e with
  | const t v => rfl
  | var t x => rfl
  | un t o c => cases o <;> rfl
  | bin t o l r =>
    cases o <;>
      simp only [power_base_needs_parens, powerBaseNeedsParens, h, isinstance, Cls.holds, List.any,
        Ex.isUn, Ex.isOp] <;> simp

theorem numLt_zero (v : Rat) : numLt (some v) (0 : Int) = decide (v < 0) := by
  simp [numLt]

theorem negate_needs_parens_agree (k : Ctx) (e : Ex) :
    negate_needs_parens (some ⟨k, e⟩) = negateNeedsParens e := by
  have h := is_compact_product_agree k e
  cases e with
  | const t v => simp [negate_needs_parens, negateNeedsParens, isinstance, Cls.holds, Ref.value, numLt_zero]
  | var t x => rfl
  | un t o c => cases o <;> rfl
  | bin t o l r =>
    cases o
    case pow =>
      cases l with
      | const => rfl
      | var => rfl
      | un lt lo lc => cases lo <;> rfl
      | bin => rfl
    case mul =>
      cases l with
      | const lt lv =>
        simp only [negate_needs_parens, h]
        by_cases hc : isCompactProduct (.bin t .mul (.const lt lv) r) = true
        · simp [negateNeedsParens, hc, isinstance, Cls.holds, Ref.value, Ref.left, numLt_zero]
        · simp [negateNeedsParens, hc, isinstance, Cls.holds]
      | var => rfl
      | un => rfl
      | bin => rfl
    all_goals rfl

end Mathy.SrcAgree
