/-
Lemmas about the term predicates (`Model/TermsLike.lean`) and about the keys of `factor`
(`Model/Util.lean`) used by property C16.
-/
import Mathy.Model.TermsLike
import Mathy.Proofs.SchemaLemmas
namespace Mathy

/-! ### `hasDup`, `sumChildren`, `getTerms` -/

theorem hasDup_iff (l : List TermKey) : hasDup l = true ↔ ¬ l.Nodup := by
  induction l with
  | nil => simp [hasDup]
  | cons k ks ih =>
    simp only [hasDup, Bool.or_eq_true, ih, List.nodup_cons, List.contains_iff_mem]
    by_cases h : k ∈ ks <;> simp [h]

theorem hasDup_perm {l l' : List TermKey} (h : l.Perm l') : hasDup l = hasDup l' := by
  rw [Bool.eq_iff_iff, hasDup_iff, hasDup_iff, h.nodup_iff]

theorem isAddSub_of_isOp_add {t : Ex} (h : t.isOp .add = true) : t.isAddSub = true := by
  cases t <;> simp_all [Ex.isOp, Ex.isAddSub]
  rename_i o _ _
  subst h
  rfl

theorem isConst_of_isOp_add {t : Ex} (h : t.isOp .add = true) : t.isConst = false := by
  cases t <;> simp_all [Ex.isOp, Ex.isConst]

theorem isOp_mul_of_isOp_add {t : Ex} (h : t.isOp .add = true) : t.isOp .mul = false := by
  cases t <;> simp_all [Ex.isOp]
  rename_i o _ _
  subst h
  decide

theorem sumChildren_ne_nil (t : Ex) (h : t.isAddSub = true) : sumChildren t ≠ [] := by
  induction t with
  | const => simp [Ex.isAddSub] at h
  | var => simp [Ex.isAddSub] at h
  | un => simp [Ex.isAddSub] at h
  | bin tg o l r ihl _ =>
    simp only [Ex.isAddSub] at h
    simp only [sumChildren, h, if_true]
    by_cases hl : l.isAddSub = true
    · have := ihl hl
      simp [this]
    · simp [hl]

/-- for a tree whose root is an addition, `get_terms` is the list of its sum children -/
theorem getTerms_of_isOp_add {t : Ex} (h : t.isOp .add = true) : getTerms t = sumChildren t := by
  have h1 := sumChildren_ne_nil t (isAddSub_of_isOp_add h)
  unfold getTerms
  simp [isOp_mul_of_isOp_add h, h1]

/-! ### keys of `factor n` for a positive integer `n` -/

theorem dictSet_key_self (d : List (Rat × Rat)) (k v : Rat) : k ∈ (dictSet d k v).map (·.1) := by
  induction d with
  | nil => simp [dictSet]
  | cons x xs ih =>
    obtain ⟨k0, v0⟩ := x
    unfold dictSet
    split
    · rename_i h; simp [h]
    · simp only [List.map_cons, List.mem_cons]
      exact Or.inr ih

/-- every key is a natural number dividing `n` -/
def KeysDvd (n : Nat) (d : List (Rat × Rat)) : Prop :=
  ∀ k ∈ d.map (·.1), ∃ a : Nat, k = (a : Rat) ∧ a ∣ n

theorem dictSet_keysDvd {n a : Nat} {d : List (Rat × Rat)} {v : Rat} (hd : KeysDvd n d)
    (ha : a ∣ n) : KeysDvd n (dictSet d (a : Rat) v) := by
  intro q hq
  rcases dictSet_keys_sub hq with rfl | h
  · exact ⟨a, rfl, ha⟩
  · exact hd q h

theorem natCast_div_of_dvd {n i : Nat} (hi : 0 < i) (h : i ∣ n) :
    (n : Rat) / (i : Rat) = ((n / i : Nat) : Rat) := by
  obtain ⟨q, rfl⟩ := h
  have hi0 : (i : Rat) ≠ 0 := by exact_mod_cast hi.ne'
  rw [Nat.mul_div_cancel_left q hi]
  push_cast
  field_simp

theorem floor_toNat_natCast (n : Nat) : (n : Rat).floor.toNat = n := by
  rw [Rat.floor_def, Rat.num_natCast, Rat.den_natCast]
  simp

theorem factorStep_keysDvd {n : Nat} {d : List (Rat × Rat)} (i : Nat) (hi : 2 ≤ i)
    (hd : KeysDvd n d) : KeysDvd n (factorStep n d i) := by
  unfold factorStep
  split
  · rename_i hc
    obtain ⟨-, -, hmod⟩ := hc
    rw [Rat.num_natCast] at hmod
    have hdvd : i ∣ n := Int.natCast_dvd_natCast.mp (Int.dvd_of_emod_eq_zero hmod)
    rw [natCast_div_of_dvd (by omega) hdvd]
    exact dictSet_keysDvd (dictSet_keysDvd hd hdvd) (Nat.div_dvd_of_dvd hdvd)
  · exact hd

theorem foldl_factorStep_keysDvd {n : Nat} (l : List Nat) (hl : ∀ i ∈ l, 2 ≤ i)
    (d : List (Rat × Rat)) (hd : KeysDvd n d) : KeysDvd n (l.foldl (factorStep n) d) := by
  induction l generalizing d with
  | nil => exact hd
  | cons i is ih =>
    simp only [List.foldl_cons]
    exact ih (fun j hj => hl j (by simp [hj])) _ (factorStep_keysDvd i (hl i (by simp)) hd)

theorem factor_nat_unfold {n : Nat} (hn : 0 < n) :
    factor (n : Rat) =
      (List.range' 2 (n - 1)).foldl (factorStep n) (dictSet (dictSet [] 1 (n : Rat)) (n : Rat) 1) := by
  have h0 : ¬ (n : Rat) = 0 := by exact_mod_cast hn.ne'
  have hneg : ¬ (n : Rat) < 0 := by
    have : (0 : Rat) ≤ n := by exact_mod_cast Nat.zero_le n
    exact not_lt.mpr this
  unfold factor
  rw [if_neg h0, if_neg hneg, floor_toNat_natCast]

theorem factor_keysDvd {n : Nat} (hn : 0 < n) : KeysDvd n (factor (n : Rat)) := by
  rw [factor_nat_unfold hn]
  apply foldl_factorStep_keysDvd
  · intro i hi
    rw [List.mem_range'_1] at hi
    exact hi.1
  · have h1 : KeysDvd n (dictSet [] ((1 : Nat) : Rat) (n : Rat)) :=
      dictSet_keysDvd (by intro k hk; simp at hk) (one_dvd n)
    have := dictSet_keysDvd (v := 1) h1 (dvd_refl n)
    simpa using this

theorem foldl_factorStep_keys_keep {v : Rat} (l : List Nat) (d : List (Rat × Rat)) {k : Rat}
    (h : k ∈ d.map (·.1)) : k ∈ (l.foldl (factorStep v) d).map (·.1) := by
  induction l generalizing d with
  | nil => exact h
  | cons i is ih =>
    simp only [List.foldl_cons]
    exact ih _ (factorStep_keys_keep i h)

/-- a loop index passing the guard leaves both `i` and `v / i` as keys -/
theorem foldl_factorStep_hit {v : Rat} (l : List Nat) (i : Nat) (hi : i ∈ l)
    (hg : ((i * i : Nat) : Rat) ≤ v ∧ v.den = 1 ∧ v.num % (i : Int) = 0) (d : List (Rat × Rat)) :
    (i : Rat) ∈ (l.foldl (factorStep v) d).map (·.1) ∧
    v / (i : Rat) ∈ (l.foldl (factorStep v) d).map (·.1) := by
  induction l generalizing d with
  | nil => simp at hi
  | cons j js ih =>
    simp only [List.foldl_cons]
    rcases List.mem_cons.mp hi with rfl | hi'
    · have hs : factorStep v d i = dictSet (dictSet d i (v / i)) (v / i) i := by
        unfold factorStep
        rw [if_pos hg]
      rw [hs]
      exact ⟨foldl_factorStep_keys_keep _ _ (dictSet_keys_keep _ _ (dictSet_key_self _ _ _)),
        foldl_factorStep_keys_keep _ _ (dictSet_key_self _ _ _)⟩
    · exact ih hi' _

theorem factor_guard {n i : Nat} (hii : i * i ≤ n) (hdvd : i ∣ n) :
    ((i * i : Nat) : Rat) ≤ (n : Rat) ∧ (n : Rat).den = 1 ∧ (n : Rat).num % (i : Int) = 0 := by
  refine ⟨by exact_mod_cast hii, Rat.den_natCast n, ?_⟩
  rw [Rat.num_natCast]
  exact Int.emod_eq_zero_of_dvd (Int.natCast_dvd_natCast.mpr hdvd)

/-- every divisor of `n` is a key of `factor n` -/
theorem factor_key_of_dvd {n d : Nat} (hn : 0 < n) (hdvd : d ∣ n) :
    (d : Rat) ∈ (factor (n : Rat)).map (·.1) := by
  rw [factor_nat_unfold hn]
  have hdn : d ≤ n := Nat.le_of_dvd hn hdvd
  have hd0 : 0 < d := Nat.pos_of_dvd_of_pos hdvd hn
  by_cases h1 : d = 1
  · subst h1
    apply foldl_factorStep_keys_keep
    apply dictSet_keys_keep
    simpa using dictSet_key_self [] (1 : Rat) (n : Rat)
  by_cases h2 : d = n
  · subst h2
    apply foldl_factorStep_keys_keep
    exact dictSet_key_self _ _ _
  obtain ⟨q, hq⟩ := hdvd
  have hq2 : 2 ≤ q := by
    rcases q with _ | _ | q
    · simp at hq; omega
    · simp at hq; omega
    · omega
  have hqn : q ≤ n := by
    rw [hq]; exact Nat.le_mul_of_pos_left q hd0
  by_cases hsq : d * d ≤ n
  · have hmem : d ∈ List.range' 2 (n - 1) := by
      rw [List.mem_range'_1]; omega
    exact (foldl_factorStep_hit _ d hmem (factor_guard hsq ⟨q, hq⟩) _).1
  · have hlt : q < d := by
      by_contra hge
      have : d * d ≤ d * q := Nat.mul_le_mul_left d (Nat.le_of_not_lt hge)
      omega
    have hqq : q * q ≤ n := by
      rw [hq]; exact Nat.mul_le_mul_right q (Nat.le_of_lt hlt)
    have hqd : q ∣ n := ⟨d, by rw [hq, Nat.mul_comm]⟩
    have hmem : q ∈ List.range' 2 (n - 1) := by
      rw [List.mem_range'_1]; omega
    have := (foldl_factorStep_hit _ q hmem (factor_guard hqq hqd)
      (dictSet (dictSet [] 1 (n : Rat)) (n : Rat) 1)).2
    rw [natCast_div_of_dvd (by omega) hqd] at this
    have hnq : n / q = d := by
      rw [hq]; exact Nat.mul_div_cancel d (by omega)
    rwa [hnq] at this

/-- the keys of `factor n` are exactly the divisors of `n` -/
theorem factor_has_key_iff {n d : Nat} (hn : 0 < n) :
    (∃ q : Rat, dictGet? (factor (n : Rat)) (d : Rat) = some q) ↔ d ∣ n := by
  rw [← Option.isSome_iff_exists]
  change dictHas (factor (n : Rat)) (d : Rat) = true ↔ _
  rw [dictHas_iff]
  constructor
  · intro h
    obtain ⟨a, ha, hdvd⟩ := factor_keysDvd hn _ h
    have : d = a := by exact_mod_cast ha
    rw [this]; exact hdvd
  · exact factor_key_of_dvd hn

end Mathy
