/-
The fuel `parseFuel ts = 8 * ts.length + 16` is enough for EVERY token list, accepted or not:
the parser model never answers `PErr.fuel`.  The measure argument is in `ParserFuelAux.lean`.
-/
import Mathy.Model.Parser
import Mathy.Proofs.ParserFuelAux
namespace Mathy

theorem parseToks_ne_fuel (ts : List Tok) : parseToks ts ≠ .error .fuel :=
  parseToks_ne_fuel' ts

end Mathy
