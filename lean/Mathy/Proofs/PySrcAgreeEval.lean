/-
The model's evaluator IS the repository's (translated source): `Gen/PySrcEval.lean` is regenerated on
every run from the live `mathy_core/expressions.py` by `harness/py2lean_eval.py`.
-/
import Mathy.Gen.PySrcEval
import Mathlib.Data.Rat.Cast.Order
set_option linter.unusedSimpArgs false
namespace Mathy.SrcAgree
open Mathy.Py Mathy.Gen.Src

theorem neg_agree (v : PyVal) : NegateExpression_operate v = pyUn .neg v := rfl
theorem fact_agree (v : PyVal) : FactorialExpression_operate v = pyUn .fact v := rfl
theorem abs_agree (v : PyVal) : AbsExpression_operate v = pyUn .abs v := rfl

theorem sgn_agree (v : PyVal) : SgnExpression_operate v = pyUn .sgn v := by
  cases v with
  | int z =>
    simp only [SgnExpression_operate, pyUn, pySgn, pvLt, pvGt, pvInt, PyVal.toRat?]
    by_cases h1 : z < 0
    · have c1 : ((z : Rat) < ((0 : Int) : Rat)) := by exact_mod_cast h1
      simp [h1, c1]
    · have c1 : ¬ ((z : Rat) < ((0 : Int) : Rat)) := by exact_mod_cast h1
      by_cases h2 : 0 < z
      · have c2 : (((0 : Int) : Rat) < (z : Rat)) := by exact_mod_cast h2
        simp [h1, h2, c1, c2]
      · have c2 : ¬ (((0 : Int) : Rat) < (z : Rat)) := by exact_mod_cast h2
        simp [h1, h2, c1, c2]
  | flt q =>
    simp only [SgnExpression_operate, pyUn, pySgn, pvLt, pvGt, pvInt, PyVal.toRat?]
    by_cases h1 : q < 0
    · simp [h1]
    · by_cases h2 : 0 < q
      · simp [h1, h2]
      · simp [h1, h2]
  | nan => rfl

theorem add_agree (a b : PyVal) : AddExpression_operate a b = pyBin .add a b := rfl
theorem sub_agree (a b : PyVal) : SubtractExpression_operate a b = pyBin .sub a b := rfl
theorem mul_agree (a b : PyVal) : MultiplyExpression_operate a b = pyBin .mul a b := rfl

theorem div_agree (a b : PyVal) : DivideExpression_operate a b = pyBin .div a b := by
  cases b with
  | nan => cases a <;> rfl
  | int z =>
    simp only [DivideExpression_operate, pyBin, pyDiv, pvEq, pyEq, pvInt, PyVal.toRat?, pvNan, pvTrueDiv]
    by_cases h : z = 0
    · subst h; simp
    · have h' : ¬ ((z : Rat) = 0) := by exact_mod_cast h
      cases a <;> simp [h, h', PyVal.toRat?]
  | flt q =>
    simp only [DivideExpression_operate, pyBin, pyDiv, pvEq, pyEq, pvInt, PyVal.toRat?, pvNan, pvTrueDiv]
    by_cases h : q = 0
    · subst h; simp
    · cases a <;> simp [h, PyVal.toRat?]

theorem pow_agree (a b : PyVal) : PowerExpression_operate a b = pyBin .pow a b := by
  cases a <;> cases b <;>
    simp only [PowerExpression_operate, pyBin, pvIsInt, PyVal.isInt, pvGe, pvInt, PyVal.toRat?, pvIntPow, pvNpPower,
      pyPow, Bool.true_and, Bool.false_and, Bool.and_false, Bool.false_eq_true, if_false]
  rename_i x y
  by_cases h : 0 ≤ y
  · have h' : (0 : Rat) ≤ (y : Rat) := by exact_mod_cast h
    simp [h, h']
  · have h' : ¬ (0 : Rat) ≤ (y : Rat) := by exact_mod_cast h
    simp [h, h']

theorem eq_agree (a b : PyVal) : EqualExpression_operate a b = pyBin .eq a b := by
  simp only [EqualExpression_operate, pyBin, pvNe]
  by_cases h : pyEq a b = true
  · simp [h]
  · simp [h]

/-- **the translated `evaluate` is the model's `pyEval`**, for every tree and every context -/
theorem evaluate_agree (env : PyEnv) (e : PEx) : MathExpression_evaluate env e = pyEval env e := by
  induction e with
  | cint z => rfl
  | cflt q => rfl
  | var x => simp only [MathExpression_evaluate, pyEval]; cases env x <;> rfl
  | un o c ih =>
    simp only [MathExpression_evaluate, pyEval, ih]
    cases pyEval env c with
    | error k => rfl
    | ok v =>
      simp only [Except.bind]
      cases o
      · exact neg_agree v
      · exact fact_agree v
      · exact sgn_agree v
      · exact abs_agree v
  | bin o l r ihl ihr =>
    simp only [MathExpression_evaluate, pyEval, ihl, ihr]
    cases pyEval env l with
    | error k => rfl
    | ok a =>
      simp only [Except.bind]
      cases pyEval env r with
      | error k => rfl
      | ok b =>
        simp only []
        cases o
        · exact add_agree a b
        · exact sub_agree a b
        · exact mul_agree a b
        · exact div_agree a b
        · exact pow_agree a b
        · exact eq_agree a b

end Mathy.SrcAgree
