/-
Structural facts about rewrites (property C07): object identities (tags) are never duplicated,
the context is left alone, and the set of variables is unchanged.
-/
import Mathy.Proofs.Total
namespace Mathy
set_option maxHeartbeats 1000000

/-! ### Tags and variables of contexts -/

def Frame.tags : Frame → List Nat
  | .binL t _ r => t :: r.tags
  | .binR t _ l => t :: l.tags
  | .un t _ => [t]

/-- number of occurrences of the identity `x` in the frames of a context -/
def ctxCount (x : Nat) : Ctx → Nat
  | [] => 0
  | f :: fs => f.tags.count x + ctxCount x fs

theorem count_fill (x : Nat) (f : Frame) (e : Ex) :
    (f.fill e).tags.count x = e.tags.count x + f.tags.count x := by
  cases f <;> (simp [Frame.fill, Frame.tags, Ex.tags, List.count_append, List.count_cons]; try omega)

theorem count_plug (x : Nat) (k : Ctx) (e : Ex) :
    (plug k e).tags.count x = e.tags.count x + ctxCount x k := by
  induction k generalizing e with
  | nil => simp [plug, ctxCount]
  | cons f fs ih => simp only [plug, ctxCount]; rw [ih, count_fill]; omega

def Frame.vars : Frame → List Char
  | .binL _ _ r => r.vars
  | .binR _ _ l => l.vars
  | .un _ _ => []

def ctxVars : Ctx → List Char
  | [] => []
  | f :: fs => f.vars ++ ctxVars fs

theorem mem_vars_fill (c : Char) (f : Frame) (e : Ex) :
    c ∈ (f.fill e).vars ↔ c ∈ e.vars ∨ c ∈ f.vars := by
  cases f <;> (simp [Frame.fill, Frame.vars, Ex.vars]; try tauto)

theorem mem_vars_plug (c : Char) (k : Ctx) (e : Ex) :
    c ∈ (plug k e).vars ↔ c ∈ e.vars ∨ c ∈ ctxVars k := by
  induction k generalizing e with
  | nil => simp [plug, ctxVars]
  | cons f fs ih => simp only [plug, ctxVars]; rw [ih, mem_vars_fill]; simp; tauto

/-! ### Clones -/

theorem count_clone {x : Nat} (hx : x ≠ 0) (e : Ex) : e.clone.tags.count x = 0 := by
  have hx0 : (0 : Nat) ≠ x := hx.symm
  induction e with
  | const t v => simp [Ex.clone, Ex.tags, hx0]
  | var t v => simp [Ex.clone, Ex.tags, hx0]
  | un t o c ih => simp [Ex.clone, Ex.tags, hx0, ih]
  | bin t o l r ihl ihr =>
    simp [Ex.clone, Ex.tags, List.count_append, hx0, ihl, ihr]

@[simp] theorem vars_clone (e : Ex) : e.clone.vars = e.vars := by
  induction e with
  | const t v => rfl
  | var t v => rfl
  | un t o c ih => simp [Ex.clone, Ex.vars, ih]
  | bin t o l r ihl ihr => simp [Ex.clone, Ex.vars, ihl, ihr]

/-! ### Local rewrites -/

/-- `n'` may replace `n`: no identity occurs more often, same variables -/
structure LocalOk (n n' : Ex) : Prop where
  tags : ∀ x, x ≠ 0 → n'.tags.count x ≤ n.tags.count x
  vars : ∀ c, c ∈ n'.vars ↔ c ∈ n.vars

theorem LocalOk.plug_tags {n n' : Ex} (h : LocalOk n n') (k : Ctx) (x : Nat) (hx : x ≠ 0) :
    (plug k n').tags.count x ≤ (plug k n).tags.count x := by
  rw [count_plug, count_plug]
  have := h.tags x hx
  omega

theorem LocalOk.plug_vars {n n' : Ex} (h : LocalOk n n') (k : Ctx) (c : Char) :
    c ∈ (plug k n').vars ↔ c ∈ (plug k n).vars := by
  rw [mem_vars_plug, mem_vars_plug, h.vars c]

/-- closes `count x _ ≤ count x _` goals on explicit trees; the argument is `x ≠ 0` -/
macro "tags_close" h:ident : tactic =>
  `(tactic| (
    have hx0 := Ne.symm $h
    simp [Frame.fill, Ex.tags, Ex.clone, vmWrapSimple, vmWrapChained, vmWrapCLR, List.count_append, List.count_cons, count_clone, $h:ident, hx0] <;>
      (try split_ifs) <;> omega))

macro "vars_close" : tactic =>
  `(tactic| (simp [Frame.fill, Ex.vars, Ex.clone, vars_clone, vmWrapSimple, vmWrapChained, vmWrapCLR] <;> (try tauto)))

/-! ### Associative swap -/

theorem asApply_struct {k k' : Ctx} {n n' : Ex} (h : asApply k n = .ok (k', n')) :
    ∃ f, k = f :: k' ∧ LocalOk (f.fill n) n' := by
  unfold asApply at h
  split at h
  · simp at h
    obtain ⟨rfl, rfl⟩ := h
    refine ⟨_, rfl, ⟨fun x hx => ?_, fun c => ?_⟩⟩
    · tags_close hx
    · vars_close
  · simp at h
    obtain ⟨rfl, rfl⟩ := h
    refine ⟨_, rfl, ⟨fun x hx => ?_, fun c => ?_⟩⟩
    · tags_close hx
    · vars_close
  · simp at h

/-! ### Commutative swap -/

theorem csApply_struct {k k' : Ctx} {n n' : Ex} (h : csApply k n = .ok (k', n')) :
    k' = k ∧ LocalOk n n' := by
  unfold csApply at h
  repeat' (split at h)
  all_goals (first | (simp at h; done) | skip)
  all_goals (
    simp at h
    obtain ⟨rfl, rfl⟩ := h
    refine ⟨rfl, ⟨fun x hx => ?_, fun c => ?_⟩⟩
    · tags_close hx
    · vars_close)

/-! ### Constant arithmetic -/

theorem caStep_struct {n n' : Ex} {ty : CAType} (h : caStep n = some (ty, .ok n')) :
    LocalOk n n' := by
  unfold caStep at h
  repeat' (split at h)
  all_goals (first | (simp at h; done) | skip)
  all_goals (
    simp at h
    first
    | (obtain ⟨-, rfl⟩ := h
       refine ⟨fun x hx => ?_, fun c => ?_⟩
       · tags_close hx
       · vars_close)
    | (obtain ⟨-, h⟩ := h
       obtain ⟨v, -, rfl⟩ := foldConst_ok h
       refine ⟨fun x hx => ?_, fun c => ?_⟩
       · tags_close hx
       · vars_close))

theorem caApply_struct {k k' : Ctx} {n n' : Ex} (h : caApply k n = .ok (k', n')) :
    k' = k ∧ LocalOk n n' := by
  unfold caApply at h
  split at h
  · simp at h
  · rename_i hs
    simp at h
    obtain ⟨rfl, rfl⟩ := h
    exact ⟨rfl, caStep_struct hs⟩
  · simp at h

/-! ### Terms -/

theorem getTermEx_vars {p : Bool} {e : Ex} {t : TermEx} (h : getTermEx p e = some t) (c : Char) :
    c ∈ e.vars ↔ t.var = some c := by
  unfold getTermEx at h
  repeat' (split at h)
  all_goals (first | (simp at h; done) | skip)
  all_goals (simp at h; subst h; simp [Ex.vars, eq_comm])

theorem makeTerm_vars {q : Rat} {v : Option Char} {e : Option Rat} {m : Ex}
    (h : makeTerm q v e = some m) (c : Char) : c ∈ m.vars ↔ v = some c := by
  unfold makeTerm at h
  repeat' (split at h)
  all_goals (first | (simp at h; done) | skip)
  all_goals (simp at h; subst h; simp [Ex.vars, eq_comm])

theorem makeTerm_tags {q : Rat} {v : Option Char} {e : Option Rat} {m : Ex}
    (h : makeTerm q v e = some m) {x : Nat} (hx : x ≠ 0) : m.tags.count x = 0 := by
  have hx0 : (0 : Nat) ≠ x := hx.symm
  unfold makeTerm at h
  repeat' (split at h)
  all_goals (first | (simp at h; done) | skip)
  all_goals (simp at h; subst h; simp [Ex.tags, hx0])

/-! ### Wrapping a rebuilt core into the kept children -/

/-- `wrap` puts a new subtree into a skeleton made of children of `n` other than `ln`, `rn` -/
structure WrapOk (n ln rn : Ex) (wrap : Ex → Ex) : Prop where
  nvars : ∀ c, c ∈ n.vars ↔ c ∈ ln.vars ∨ c ∈ rn.vars ∨ c ∈ (wrap (.const 0 0)).vars
  wvars : ∀ core c, c ∈ (wrap core).vars ↔ c ∈ core.vars ∨ c ∈ (wrap (.const 0 0)).vars
  wtags : ∀ core x, x ≠ 0 →
    (wrap core).tags.count x = core.tags.count x + (wrap (.const 0 0)).tags.count x
  ntags : ∀ x, x ≠ 0 → (wrap (.const 0 0)).tags.count x ≤ n.tags.count x

theorem WrapOk.local {n ln rn core : Ex} {wrap : Ex → Ex} (h : WrapOk n ln rn wrap)
    (ht : ∀ x, x ≠ 0 → core.tags.count x = 0)
    (hv : ∀ c, c ∈ core.vars ↔ c ∈ ln.vars ∨ c ∈ rn.vars) : LocalOk n (wrap core) := by
  refine ⟨fun x hx => ?_, fun c => ?_⟩
  · rw [h.wtags core x hx, ht x hx]
    have := h.ntags x hx
    omega
  · rw [h.wvars core c, h.nvars c, hv c]
    tauto

macro "wrap_close" : tactic =>
  `(tactic| (
    constructor
    · intro c; vars_close
    · intro core c; vars_close
    · intro core x hx; tags_close hx
    · intro x hx; tags_close hx))

/-! ### Distributive factor out -/

theorem dfStep_struct {n ln rn : Ex} {ty : DFType} {lt rt : TermEx} {wrap : Ex → Ex}
    (h : dfStep n = some (ty, (ln, lt), (rn, rt), wrap)) : WrapOk n ln rn wrap := by
  unfold dfStep at h
  repeat' (split at h)
  all_goals (first | (simp at h; done) | skip)
  all_goals (
    simp at h
    obtain ⟨-, ⟨rfl, rfl⟩, ⟨rfl, rfl⟩, rfl⟩ := h
    wrap_close)

theorem dfCore_struct {lt rt : TermEx} {core : Ex} (h : dfCore lt rt = some core) :
    (∀ x, x ≠ 0 → core.tags.count x = 0) ∧
    (∀ c, c ∈ core.vars ↔ (lt.var = some c ∨ rt.var = some c)) := by
  unfold dfCore at h
  split at h
  · simp at h
  rename_i f hf
  split at h
  rotate_left
  · simp at h
  rename_i a b c ha hb hc
  simp at h
  subst h
  obtain ⟨-, -, hcase⟩ := factorAddTermsEx_spec hf
  refine ⟨fun x hx => ?_, fun ch => ?_⟩
  · have hx0 : (0 : Nat) ≠ x := hx.symm
    simp [Ex.tags, List.count_append, makeTerm_tags ha hx, makeTerm_tags hb hx,
      makeTerm_tags hc hx, hx0]
  · simp only [Ex.vars, List.mem_append, makeTerm_vars ha, makeTerm_vars hb, makeTerm_vars hc]
    rcases hcase with ⟨h1, -, h3, -, h5, -, h7, -⟩ | ⟨h1, -, h3, -, h5, -⟩
    · rw [h1, h5, h7, ← h3]; simp
    · rw [h1, h3, h5]; simp

theorem dfApply_struct {k k' : Ctx} {n n' : Ex} (h : dfApply k n = .ok (k', n')) :
    k' = k ∧ LocalOk n n' := by
  unfold dfApply at h
  split at h
  · simp at h
  · rename_i ty ln lt rn rt wrap hs
    split at h
    · rename_i core hc
      simp at h
      obtain ⟨rfl, rfl⟩ := h
      obtain ⟨hl, hr, -⟩ := dfStep_wrap hs
      obtain ⟨ht, hv⟩ := dfCore_struct hc
      refine ⟨rfl, (dfStep_struct hs).local ht ?_⟩
      intro c
      rw [hv c, getTermEx_vars hl c, getTermEx_vars hr c]
    · simp at h

/-! ### Distributive multiply -/

theorem dmBuild_struct (t t' : Nat) (a b c : Ex) :
    LocalOk (.bin t .mul a (.bin t' .add b c)) (dmBuild a b c) ∧
    LocalOk (.bin t .mul (.bin t' .add b c) a) (dmBuild a b c) := by
  refine ⟨⟨fun x hx => ?_, fun ch => ?_⟩, ⟨fun x hx => ?_, fun ch => ?_⟩⟩
  · unfold dmBuild; simp only; split_ifs <;> tags_close hx
  · unfold dmBuild; simp only; split_ifs <;> vars_close
  · unfold dmBuild; simp only; split_ifs <;> tags_close hx
  · unfold dmBuild; simp only; split_ifs <;> vars_close

theorem dmApply_struct {k k' : Ctx} {n n' : Ex} (h : dmApply k n = .ok (k', n')) :
    k' = k ∧ LocalOk n n' := by
  unfold dmApply at h
  split at h
  · simp at h
    obtain ⟨rfl, rfl⟩ := h
    exact ⟨rfl, (dmBuild_struct _ _ _ _ _).2⟩
  · simp at h
    obtain ⟨rfl, rfl⟩ := h
    exact ⟨rfl, (dmBuild_struct _ _ _ _ _).1⟩
  · simp at h

/-! ### Multiplicative inverse -/

theorem miApply_struct {k k' : Ctx} {n n' : Ex} (h : miApply k n = .ok (k', n')) :
    k' = k ∧ LocalOk n n' := by
  unfold miApply at h
  split at h
  · simp at h
    obtain ⟨rfl, rfl⟩ := h
    refine ⟨rfl, ⟨fun x hx => ?_, fun c => ?_⟩⟩
    · tags_close hx
    · vars_close
  · simp at h
    obtain ⟨rfl, rfl⟩ := h
    refine ⟨rfl, ⟨fun x hx => ?_, fun c => ?_⟩⟩
    · tags_close hx
    · vars_close
  · simp at h

/-! ### Restate subtraction -/

theorem rsStep_struct {k : Ctx} {n n' : Ex} {ty : RSType} (h : rsStep k n = some (ty, n')) :
    LocalOk n n' := by
  unfold rsStep at h
  repeat' (split at h)
  all_goals (first | (simp at h; done) | skip)
  all_goals (
    simp at h
    obtain ⟨-, rfl⟩ := h
    refine ⟨fun x hx => ?_, fun c => ?_⟩
    · tags_close hx
    · vars_close)

theorem rsApply_struct {k k' : Ctx} {n n' : Ex} (h : rsApply k n = .ok (k', n')) :
    k' = k ∧ LocalOk n n' := by
  unfold rsApply at h
  split at h
  · rename_i hs
    simp at h
    obtain ⟨rfl, rfl⟩ := h
    exact ⟨rfl, rsStep_struct hs⟩
  · simp at h

/-! ### Variable multiply -/

theorem wrapOk_vmSimple (t : Nat) (l r : Ex) (coefs : List Rat) :
    WrapOk (.bin t .mul l r) l r (vmWrapSimple coefs) := by
  rcases coefs with _ | ⟨a, _ | ⟨b, _ | ⟨c, cs⟩⟩⟩ <;> wrap_close

theorem wrapOk_vmChained (t t' : Nat) (l rl keep : Ex) (coefs : List Rat) :
    WrapOk (.bin t .mul l (.bin t' .mul rl keep)) l rl (vmWrapChained keep coefs) := by
  rcases coefs with _ | ⟨a, _ | ⟨b, _ | ⟨c, cs⟩⟩⟩ <;> wrap_close

theorem wrapOk_vmCLR (t t' : Nat) (keep lr r : Ex) (coefs : List Rat) :
    WrapOk (.bin t .mul (.bin t' .mul keep lr) r) lr r (vmWrapCLR keep coefs) := by
  rcases coefs with _ | ⟨a, _ | ⟨b, _ | ⟨c, cs⟩⟩⟩ <;> wrap_close

theorem vmStep_struct {n : Ex} {ty : VMType} {ln rn : Ex} {lt rt : TermEx}
    {wrap : List Rat → Ex → Ex}
    (h : vmStep n = some (ty, (ln, lt), (rn, rt), wrap)) :
    getTermEx false ln = some lt ∧ getTermEx false rn = some rt ∧ lt.var = rt.var ∧
    ∀ coefs, WrapOk n ln rn (wrap coefs) := by
  unfold vmStep at h
  split at h
  rotate_left
  · simp at h
  rename_i t l r
  simp only at h
  split at h
  · rename_i hclr
    simp at h
    subst h
    split at hclr
    rotate_left
    · simp at hclr
    rename_i keep lr _ _ _
    split at hclr
    rotate_left
    · simp at hclr
    rename_i clt rt' hl hr
    split at hclr
    rotate_left
    · simp at hclr
    rename_i hv
    simp at hclr
    obtain ⟨-, ⟨rfl, rfl⟩, ⟨rfl, rfl⟩, rfl⟩ := hclr
    simp at hv
    exact ⟨hl, hr, hv, fun coefs => wrapOk_vmCLR _ _ _ _ _ coefs⟩
  · split at h
    · simp at h
    · rename_i lt' hl
      split at h
      · simp at h
      · split at h
        · rename_i rt' hr
          split at h
          · simp at h
          · split at h
            · simp at h
            · rename_i hv
              simp at h
              obtain ⟨-, ⟨rfl, rfl⟩, ⟨rfl, rfl⟩, rfl⟩ := h
              simp at hv
              exact ⟨hl, hr, hv, fun coefs => wrapOk_vmSimple _ _ _ coefs⟩
        · split at h
          rotate_left
          · simp at h
          split at h
          · simp at h
          · rename_i rt' hr
            split at h
            · simp at h
            · split at h
              · simp at h
              · rename_i hv
                simp at h
                obtain ⟨-, ⟨rfl, rfl⟩, ⟨rfl, rfl⟩, rfl⟩ := h
                simp at hv
                exact ⟨hl, hr, hv, fun coefs => wrapOk_vmChained _ _ _ _ _ coefs⟩

theorem vmApply_struct {k k' : Ctx} {n n' : Ex} (h : vmApply k n = .ok (k', n')) :
    k' = k ∧ LocalOk n n' := by
  unfold vmApply at h
  split at h
  · simp at h
  · rename_i ty ln lt rn rt wrap hs
    split at h
    · simp at h
    · rename_i x hx
      simp at h
      obtain ⟨rfl, rfl⟩ := h
      obtain ⟨hl, hr, hv, hw⟩ := vmStep_struct hs
      refine ⟨rfl, (hw _).local ?_ ?_⟩
      · intro y hy
        tags_close hy
      · intro c
        rw [getTermEx_vars hl c, getTermEx_vars hr c, ← hv, hx]
        simp [Ex.vars, eq_comm]

/-! ### Balanced move -/

theorem removeAddend_vars {inner inner' : Ctx} {sib : Ex}
    (h : removeAddend inner = some (inner', sib)) (e : Ex) (c : Char) :
    c ∈ (plug inner e).vars ↔ c ∈ e.vars ∨ c ∈ (plug inner' sib).vars := by
  unfold removeAddend at h
  split at h
  · simp at h; obtain ⟨rfl, rfl⟩ := h
    simp only [plug, Frame.fill]
    rw [mem_vars_plug, mem_vars_plug]
    simp [Ex.vars]; tauto
  · simp at h; obtain ⟨rfl, rfl⟩ := h
    simp only [plug, Frame.fill]
    rw [mem_vars_plug, mem_vars_plug]
    simp [Ex.vars]; tauto
  · simp at h

theorem bmApply_struct {k k' : Ctx} {n n' : Ex} (h : bmApply k n = .ok (k', n')) :
    k' = [] ∧ (∀ x, x ≠ 0 → n'.tags.count x = 0) ∧
    (∀ c, c ∈ n'.vars ↔ c ∈ (plug k n).vars) := by
  unfold bmApply at h
  split at h
  rotate_left
  · simp at h
  rename_i ty inner rootF hty hsr
  rw [plug_splitRoot hsr]
  obtain ⟨hroot, hcm, -⟩ := bmType_spec hty hsr
  simp only at h
  cases ty with
  | constOfMultiply =>
    obtain ⟨t, v, rfl, hv⟩ := hcm rfl
    simp only at h
    cases rootF with
    | un t o => simp [Frame.isOp] at hroot
    | binL rt ro r =>
      simp at h
      obtain ⟨rfl, rfl⟩ := h
      refine ⟨rfl, fun x hx => ?_, fun c => ?_⟩
      · tags_close hx
      · vars_close
    | binR rt ro l =>
      simp at h
      obtain ⟨rfl, rfl⟩ := h
      refine ⟨rfl, fun x hx => ?_, fun c => ?_⟩
      · tags_close hx
      · vars_close
  | addition =>
    simp only at h
    split at h
    · simp at h
    rename_i inner' sib hrem
    cases rootF with
    | un t o => simp [Frame.isOp] at hroot
    | binL rt ro r =>
      simp at h
      obtain ⟨rfl, rfl⟩ := h
      refine ⟨rfl, fun x hx => ?_, fun c => ?_⟩
      · tags_close hx
      · simp [Frame.fill, Ex.vars, removeAddend_vars hrem n c] ; tauto
    | binR rt ro l =>
      simp at h
      obtain ⟨rfl, rfl⟩ := h
      refine ⟨rfl, fun x hx => ?_, fun c => ?_⟩
      · tags_close hx
      · simp [Frame.fill, Ex.vars, removeAddend_vars hrem n c]

end Mathy
