/-
Soundness of variable-multiply: x^a * x^b => x^(a+b) with coefficients, three arrangements.
-/
import Mathy.Proofs.Terms
import Mathy.Proofs.RulesSound
namespace Mathy
set_option maxHeartbeats 1000000

/-- the combined power term built by `apply_to` -/
def vmPower (x : Char) (lt rt : TermEx) : Ex :=
  .bin 0 .pow (.var 0 x) (.bin 0 .add (.const 0 (lt.exp.getD 1)) (.const 0 (rt.exp.getD 1)))

theorem eval_vmPower (env : Env) (x : Char) (lt rt : TermEx) :
    eval env (vmPower x lt rt) = evalPow (env x) (lt.exp.getD 1 + rt.exp.getD 1) := by
  simp [vmPower, eval, Res.bin, evalBop]

/-- generic result-level statement: `A*B ⊑ S` lifts through coefficients and a kept factor -/
theorem r_vm_simple (c1 c2 : Rat) (A B S : Res) (H : RRef (Res.bin .mul A B) S) :
    RRef (Res.bin .mul (Res.bin .mul (.ok c1) A) (Res.bin .mul (.ok c2) B))
         (Res.bin .mul (.ok (c1 * c2)) S) := by
  rcases A with (_|_)|a <;> rcases B with (_|_)|b <;> rcases S with (_|_)|s <;>
    simp [RRef, Res.bin, evalBop, Bad.worse] at H ⊢
  subst H; ring

theorem r_vm_chained (c1 c2 : Rat) (A B S K : Res) (H : RRef (Res.bin .mul A B) S) :
    RRef (Res.bin .mul (Res.bin .mul (.ok c1) A) (Res.bin .mul (Res.bin .mul (.ok c2) B) K))
         (Res.bin .mul (.ok (c1 * c2)) (Res.bin .mul S K)) := by
  rcases A with (_|_)|a <;> rcases B with (_|_)|b <;> rcases S with (_|_)|s <;> rcases K with (_|_)|k <;>
    simp [RRef, Res.bin, evalBop, Bad.worse] at H ⊢
  subst H; ring

theorem r_vm_clr (c1 c2 : Rat) (A B S K : Res) (H : RRef (Res.bin .mul A B) S) :
    RRef (Res.bin .mul (Res.bin .mul K (Res.bin .mul (.ok c1) A)) (Res.bin .mul (.ok c2) B))
         (Res.bin .mul K (Res.bin .mul (.ok (c1 * c2)) S)) := by
  rcases A with (_|_)|a <;> rcases B with (_|_)|b <;> rcases S with (_|_)|s <;> rcases K with (_|_)|k <;>
    simp [RRef, Res.bin, evalBop, Bad.worse] at H ⊢
  subst H; ring

/-- coefficient lists evaluate to the product of the two (defaulted) coefficients -/
theorem eval_vmWrapSimple (env : Env) (lt rt : TermEx) (p : Ex) :
    eval env (vmWrapSimple (vmCoefs lt rt) p)
      = Res.bin .mul (.ok (lt.coef.getD 1 * rt.coef.getD 1)) (eval env p) := by
  rcases lt with ⟨_|a, lv, le⟩ <;> rcases rt with ⟨_|b, rv, re⟩ <;>
    simp [vmCoefs, vmWrapSimple, eval, evalBop]

theorem eval_vmWrapChained (env : Env) (lt rt : TermEx) (keep p : Ex) :
    RRef (Res.bin .mul (.ok (lt.coef.getD 1 * rt.coef.getD 1)) (Res.bin .mul (eval env p) (eval env keep)))
      (eval env (vmWrapChained keep (vmCoefs lt rt) p)) := by
  rcases lt with ⟨_|a, lv, le⟩ <;> rcases rt with ⟨_|b, rv, re⟩ <;>
    simp only [vmCoefs, vmWrapChained, eval, Option.getD] <;>
    generalize eval env p = P <;> generalize eval env keep = K <;>
    rcases P with (_|_)|p <;> rcases K with (_|_)|k <;> res_close <;> (try simp)

theorem eval_vmWrapCLR (env : Env) (lt rt : TermEx) (keep p : Ex) :
    RRef (Res.bin .mul (eval env keep) (Res.bin .mul (.ok (lt.coef.getD 1 * rt.coef.getD 1)) (eval env p)))
      (eval env (vmWrapCLR keep (vmCoefs lt rt) p)) := by
  rcases lt with ⟨_|a, lv, le⟩ <;> rcases rt with ⟨_|b, rv, re⟩ <;>
    simp only [vmCoefs, vmWrapCLR, eval, Option.getD] <;>
    generalize eval env p = P <;> generalize eval env keep = K <;>
    rcases P with (_|_)|p <;> rcases K with (_|_)|k <;> res_close <;> (try simp)

theorem res_of_var {t : TermEx} {x : Char} (env : Env) (h : t.var = some x) :
    t.res env = Res.bin .mul (.ok (t.coef.getD 1)) (evalPow (env x) (t.exp.getD 1)) := by
  simp [TermEx.res, h]

theorem vmStep_sound {n : Ex} {ty : VMType} {ln rn : Ex} {lt rt : TermEx}
    {wrap : List Rat → Ex → Ex} {x : Char}
    (h : vmStep n = some (ty, (ln, lt), (rn, rt), wrap)) (hx : lt.var = some x) :
    Refines n (wrap (vmCoefs lt rt) (vmPower x lt rt)) := by
  unfold vmStep at h
  split at h
  rotate_left
  · simp at h
  rename_i t l r
  simp only at h
  split at h
  · -- chained left right
    rename_i hclr
    simp at h
    subst h
    split at hclr
    rotate_left
    · simp at hclr
    rename_i keep lr _ _ _
    split at hclr
    rotate_left
    · simp at hclr
    rename_i clt rt' hl hr
    split at hclr
    rotate_left
    · simp at hclr
    rename_i hv
    simp at hclr
    obtain ⟨-, ⟨rfl, rfl⟩, ⟨rfl, rfl⟩, rfl⟩ := hclr
    simp at hv
    have hxr : rt'.var = some x := by rw [← hv]; exact hx
    intro env
    refine RRef.trans ?_ (eval_vmWrapCLR env clt rt' keep _)
    have e2 := getTermEx_sound env hr
    simp only [eval] at e2 ⊢
    rw [getTermEx_sound env hl, e2, res_of_var env hx, res_of_var env hxr, eval_vmPower]
    exact r_vm_clr _ _ _ _ _ _ (r_pow_add _ _ _)
  · split at h
    · simp at h
    · rename_i lt' hl
      split at h
      · simp at h
      · split at h
        · -- simple
          rename_i rt' hr
          split at h
          · simp at h
          · split at h
            · simp at h
            · rename_i hv
              simp at h
              obtain ⟨-, ⟨rfl, rfl⟩, ⟨rfl, rfl⟩, rfl⟩ := h
              simp at hv
              have hxr : rt'.var = some x := by rw [← hv]; exact hx
              intro env
              rw [eval_vmWrapSimple]
              simp only [eval]
              rw [getTermEx_sound env hl, getTermEx_sound env hr, res_of_var env hx, res_of_var env hxr,
                eval_vmPower]
              exact r_vm_simple _ _ _ _ _ (r_pow_add _ _ _)
        · -- chained
          split at h
          rotate_left
          · simp at h
          split at h
          · simp at h
          · rename_i rt' hr
            split at h
            · simp at h
            · split at h
              · simp at h
              · rename_i hv
                simp at h
                obtain ⟨-, ⟨rfl, rfl⟩, ⟨rfl, rfl⟩, rfl⟩ := h
                simp at hv
                have hxr : rt'.var = some x := by rw [← hv]; exact hx
                intro env
                refine RRef.trans ?_ (eval_vmWrapChained env lt' rt' _ _)
                simp only [eval]
                rw [getTermEx_sound env hl, getTermEx_sound env hr, res_of_var env hx, res_of_var env hxr,
                  eval_vmPower]
                exact r_vm_chained _ _ _ _ _ _ (r_pow_add _ _ _)

theorem vmApply_sound {k k' : Ctx} {n n' : Ex}
    (h : vmApply k n = .ok (k', n')) : Refines (plug k n) (plug k' n') := by
  unfold vmApply at h
  split at h
  · simp at h
  · rename_i hs
    split at h
    · simp at h
    · rename_i x hx
      simp at h
      obtain ⟨rfl, rfl⟩ := h
      exact (vmStep_sound hs hx).plug _

end Mathy
