/-
Completeness of the parser model with respect to the grammar of `Spec/Grammar.lean`
(includes: the fuel `parseFuel` is always enough).
-/
import Mathy.Spec.Grammar
namespace Mathy

theorem parseToks_complete (body : List Tok) (e : Ex) (hb : ∀ t ∈ body, t.type ≠ .eof)
    (h : G.EqualE body e) : parseToks (body ++ [eofTok]) = .ok e := by
  sorry

end Mathy
