/-
Completeness of the parser model with respect to the grammar of `Spec/Grammar.lean`
(includes: the fuel `parseFuel` is always enough).
-/
import Mathy.Proofs.ParserCompleteAux
namespace Mathy
namespace PC

/-! ### one iteration of the `parse_factors` loop -/

/-- one iteration of the `parse_factors` loop: a single primary -/
def primStep (fuel : Nat) (ts : List Tok) : Except PErr (Ex × List Tok) :=
  match ts with
  | ⟨.variable, v⟩ :: _ =>
    match eat .variable ts with
    | .error e => .error e
    | .ok ts' => .ok (.var 0 (v.headD 'x'), ts')
  | ⟨.function, _⟩ :: _ => parseFunction fuel ts
  | ⟨.openParen, _⟩ :: _ =>
    match eat .openParen ts with
    | .error e => .error e
    | .ok ts' =>
      match parseAdd fuel ts' with
      | .error e => .error e
      | .ok (e, ts2) =>
        match eat .closeParen ts2 with
        | .error e => .error e
        | .ok ts3 => .ok (e, ts3)
  | _ => .error .unexpectedBehavior

theorem factorsLoop_succ (fuel : Nat) (acc : List Ex) (ts : List Tok) :
    factorsLoop (fuel + 1) acc ts =
      match primStep fuel ts with
      | .error e => .error e
      | .ok (f, ts) =>
        if firstFactor (headType ts) then factorsLoop fuel (f :: acc) ts else .ok (f :: acc, ts) := by
  simp only [factorsLoop]; rfl

theorem primStep_var (fuel : Nat) (t : Tok) (h : t.type = .variable) (tl : List Tok) :
    primStep fuel (t :: tl) = .ok (.var 0 (t.value.headD 'x'), tl) := by
  obtain ⟨ty, v⟩ := t
  simp only at h; subst h
  simp [primStep, eat, headType_cons, advance]

theorem primStep_fn (fuel : Nat) (t : Tok) (h : t.type = .function) (tl : List Tok) :
    primStep fuel (t :: tl) = parseFunction fuel (t :: tl) := by
  obtain ⟨ty, v⟩ := t
  simp only at h; subst h
  simp [primStep]

theorem primStep_paren (fuel : Nat) (t : Tok) (h : t.type = .openParen) (tl : List Tok) :
    primStep fuel (t :: tl) =
      match parseAdd fuel tl with
      | .error e => .error e
      | .ok (e, ts2) =>
        match eat .closeParen ts2 with
        | .error e => .error e
        | .ok ts3 => .ok (e, ts3) := by
  obtain ⟨ty, v⟩ := t
  simp only at h; subst h
  simp [primStep, eat, headType_cons, advance]

/-! ### the induction motives -/

def MP (ts : List Tok) (e : Ex) : Prop :=
  G.endsClosed ts = false ∧
  ∀ fuel rest, 8 * ts.length ≤ fuel → primStep fuel (ts ++ rest) = .ok (e, rest)

def MS (ts : List Tok) (es : List Ex) : Prop :=
  G.endsClosed ts = false ∧
  ∀ fuel acc rest, 8 * ts.length + 1 ≤ fuel → firstFactor (headType rest) = false →
    factorsLoop fuel acc (ts ++ rest) = .ok (es.reverse ++ acc, rest)

def MF (ts : List Tok) (e : Ex) : Prop :=
  ∀ fuel rest, 8 * ts.length + 2 ≤ fuel → firstFactor (headType rest) = false →
    (isExpTok (headType rest) = false ∨ G.endsClosed ts = true) →
    parseFactors fuel (ts ++ rest) = .ok (e, rest)

def MU (ts : List Tok) (e : Ex) : Prop :=
  ∀ fuel rest, 8 * ts.length + 3 ≤ fuel → firstFactor (headType rest) = false →
    (isExpTok (headType rest) = false ∨ G.endsClosed ts = true) →
    parseUnary fuel (ts ++ rest) = .ok (e, rest)

def ME (ts : List Tok) (e : Ex) : Prop :=
  ∀ fuel rest, 8 * ts.length + 4 ≤ fuel → contE (headType rest) = true →
    parseExponent fuel (ts ++ rest) = .ok (e, rest)

def MML (acc : Ex) (ts : List Tok) (e : Ex) : Prop :=
  ∀ fuel rest, 8 * ts.length + 1 ≤ fuel → contM (headType rest) = true →
    multLoop fuel acc (ts ++ rest) = .ok (e, rest)

def MM (ts : List Tok) (e : Ex) : Prop :=
  ∀ fuel rest, 8 * ts.length + 5 ≤ fuel → contM (headType rest) = true →
    parseMult fuel (ts ++ rest) = .ok (e, rest)

def MAL (acc : Ex) (ts : List Tok) (e : Ex) : Prop :=
  ∀ fuel rest, 8 * ts.length + 1 ≤ fuel → contA (headType rest) = true →
    addLoop fuel acc (ts ++ rest) = .ok (e, rest)

def MA (ts : List Tok) (e : Ex) : Prop :=
  ∀ fuel rest, 8 * ts.length + 6 ≤ fuel → contA (headType rest) = true →
    parseAdd fuel (ts ++ rest) = .ok (e, rest)

/-! ### Prim -/

theorem c_var (t : Tok) (h : t.type = .variable) : MP [t] (.var 0 (t.value.headD 'x')) := by
  refine ⟨by simp [G.endsClosed, h], ?_⟩
  intro fuel rest _
  exact primStep_var fuel t h rest

theorem c_fn (f o c : Tok) (hf : f.type = .function) (ho : o.type = .openParen)
    (hc : c.type = .closeParen) {ts : List Tok} {e : Ex} (ih : MA ts e) :
    MP (f :: o :: ts ++ [c]) (.un 0 .sgn e) := by
  refine ⟨?_, ?_⟩
  · rw [endsClosed_append _ _ (by simp)]; simp [G.endsClosed, hc]
  · intro fuel rest hfuel
    obtain ⟨k, rfl⟩ : ∃ k, fuel = k + 1 := ⟨fuel - 1, by simp at hfuel; omega⟩
    have h1 : parseAdd k (ts ++ (c :: rest)) = .ok (e, c :: rest) :=
      ih k (c :: rest) (by simp at hfuel; omega) (by simp [headType_cons, hc]; decide)
    simp only [List.cons_append, List.append_assoc, List.nil_append]
    rw [primStep_fn _ _ hf, parseFunction]
    simp only [headType_cons]
    rw [eat_cons _ rfl (by simp [hf])]
    simp only
    rw [eat_cons _ ho (by decide)]
    simp only [h1]
    rw [eat_cons _ hc (by decide)]

theorem c_paren (o c : Tok) (ho : o.type = .openParen) (hc : c.type = .closeParen)
    {ts : List Tok} {e : Ex} (ih : MA ts e) : MP (o :: ts ++ [c]) e := by
  refine ⟨?_, ?_⟩
  · rw [endsClosed_append _ _ (by simp)]; simp [G.endsClosed, hc]
  · intro fuel rest hfuel
    have h1 : parseAdd fuel (ts ++ (c :: rest)) = .ok (e, c :: rest) :=
      ih fuel (c :: rest) (by simp at hfuel; omega) (by simp [headType_cons, hc]; decide)
    simp only [List.cons_append, List.append_assoc, List.nil_append]
    rw [primStep_paren _ _ ho]
    simp only [h1]
    rw [eat_cons _ hc (by decide)]

/-! ### PrimSeq -/

theorem c_one {ts : List Tok} {e : Ex} (ih : MP ts e) : MS ts [e] := by
  refine ⟨ih.1, ?_⟩
  intro fuel acc rest hfuel hr
  obtain ⟨k, rfl⟩ : ∃ k, fuel = k + 1 := ⟨fuel - 1, by omega⟩
  rw [factorsLoop_succ, ih.2 k rest (by omega)]
  simp [hr]

theorem c_cons {ts ts' : List Tok} {e : Ex} {es : List Ex} (a : G.Prim ts e) (b : G.PrimSeq ts' es)
    (ih : MP ts e) (ih' : MS ts' es) : MS (ts ++ ts') (e :: es) := by
  have hne : ts' ≠ [] := (hd_PrimSeq b).ne_nil
  refine ⟨by rw [endsClosed_append _ _ hne]; exact ih'.1, ?_⟩
  intro fuel acc rest hfuel hr
  obtain ⟨k, rfl⟩ : ∃ k, fuel = k + 1 := ⟨fuel - 1, by omega⟩
  rw [List.append_assoc, factorsLoop_succ, ih.2 k _ (by simp at hfuel; omega)]
  have hff : firstFactor (headType (ts' ++ rest)) = true :=
    primStart_firstFactor _ ((hd_PrimSeq b).head rest)
  have hlen : 0 < ts.length := List.length_pos_iff.mpr (hd_Prim a).ne_nil
  simp only [hff, if_true]
  rw [ih'.2 k _ rest (by simp at hfuel; omega) hr]
  simp

/-! ### Factors -/

theorem parseFactors_plain (k : Nat) (ts rest : List Tok) (init : List Ex) (last f0 : Ex)
    (fs : List Ex) (hloop : factorsLoop k [] ts = .ok (last :: init.reverse, rest))
    (hx : isExpTok (headType rest) = false) (heq : init ++ [last] = f0 :: fs) :
    parseFactors (k + 1) ts = .ok (G.product f0 fs, rest) := by
  rw [parseFactors]
  simp only [hloop, hx]
  simp [heq, G.product]

theorem parseFactors_pow (k : Nat) (ts us rest : List Tok) (x : Tok) (hx : x.type = .exponent)
    (init : List Ex) (last u f0 : Ex) (fs : List Ex)
    (hloop : factorsLoop k [] ts = .ok (last :: init.reverse, x :: us))
    (hfu : firstUnary (headType us) = true) (hu : parseUnary k us = .ok (u, rest))
    (heq : init ++ [Ex.bin 0 .pow last u] = f0 :: fs) :
    parseFactors (k + 1) ts = .ok (G.product f0 fs, rest) := by
  rw [parseFactors]
  have h1 : isExpTok (headType (x :: us)) = true := by simp [headType_cons, hx, isExpTok]
  simp only [hloop, h1, if_true]
  rw [eat_cons _ hx (by decide)]
  simp only [hfu, hu]
  simp [heq, G.product]

theorem c_plain {ts : List Tok} {f0 : Ex} {fs : List Ex} (ih : MS ts (f0 :: fs)) :
    MF ts (G.product f0 fs) := by
  intro fuel rest hfuel hr hx
  obtain ⟨k, rfl⟩ : ∃ k, fuel = k + 1 := ⟨fuel - 1, by omega⟩
  have hx' : isExpTok (headType rest) = false := by
    rcases hx with h | h
    · exact h
    · rw [ih.1] at h; cases h
  obtain ⟨init, last, heq⟩ : ∃ init last, f0 :: fs = init ++ [last] := by
    rcases List.eq_nil_or_concat (f0 :: fs) with h | ⟨i, b, h⟩
    · cases h
    · exact ⟨i, b, by simpa using h⟩
  have hl := ih.2 k [] rest (by omega) hr
  rw [heq] at hl
  simp only [List.reverse_append, List.reverse_cons, List.reverse_nil, List.nil_append,
    List.append_nil, List.singleton_append] at hl
  exact parseFactors_plain k _ rest init last f0 fs hl hx' heq.symm

theorem c_pow (x : Tok) (hx : x.type = .exponent) {ts us : List Tok} {init : List Ex}
    {last u f0 : Ex} {fs : List Ex} (b : G.UnaryE us u)
    (heq : init ++ [Ex.bin 0 .pow last u] = f0 :: fs)
    (ih : MS ts (init ++ [last])) (ih' : MU us u) : MF (ts ++ x :: us) (G.product f0 fs) := by
  intro fuel rest hfuel hr hxr
  obtain ⟨k, rfl⟩ : ∃ k, fuel = k + 1 := ⟨fuel - 1, by omega⟩
  have hne : us ≠ [] := (hd_UnaryE b).ne_nil
  have hl := ih.2 k [] (x :: us ++ rest) (by simp at hfuel; omega)
    (by simp [headType_cons, hx]; decide)
  simp only [List.reverse_append, List.reverse_cons, List.reverse_nil, List.nil_append,
    List.append_nil, List.singleton_append] at hl
  have hu := ih' k rest (by simp at hfuel; omega) hr (by
    rcases hxr with h | h
    · exact .inl h
    · right
      rwa [endsClosed_append _ _ (by simp), endsClosed_cons _ _ hne] at h)
  rw [List.append_assoc]
  exact parseFactors_pow k _ _ rest x hx init last u f0 fs hl
    (unaryStart_firstUnary _ ((hd_UnaryE b).head rest)) hu heq

/-! ### UnaryE -/

/-- `parse_unary` after the optional leading minus has been consumed -/
def unaryBody (fuel : Nat) (neg0 : Bool) (ts : List Tok) : PRes :=
  if !firstFactorPrefix (headType ts) then .error .invalidSyntax
  else
    let withConst : Except PErr (Option Ex × Bool × List Tok) :=
      match ts with
      | ⟨.constant, v⟩ :: _ =>
        match parseNumber v with
        | none => .error .badNumber
        | some q =>
          match eat .constant ts with
          | .error e => .error e
          | .ok ts' => .ok (some (.const 0 (if neg0 then -q else q)), false, ts')
      | _ => .ok (none, neg0, ts)
    match withConst with
    | .error e => .error e
    | .ok (c, negate, ts) =>
      let wrapNeg (e : Ex) : Ex := if negate then .un 0 .neg e else e
      if firstFactor (headType ts) then
        match c with
        | none =>
          match parseFactors fuel ts with
          | .error e => .error e
          | .ok (f, ts) => .ok (wrapNeg f, ts)
        | some ce =>
          if headType ts == .factorial then
            match eat .factorial ts with
            | .error e => .error e
            | .ok ts => .ok (wrapNeg (.un 0 .fact ce), ts)
          else
            match parseFactors fuel ts with
            | .error e => .error e
            | .ok (f, ts) => .ok (wrapNeg (.bin 0 .mul ce f), ts)
      else
        match c with
        | none => .error .invalidSyntax
        | some ce => .ok (wrapNeg ce, ts)

theorem parseUnary_noMinus (k : Nat) (ts : List Tok) (h : (headType ts == .minus) = false) :
    parseUnary (k + 1) ts = unaryBody k false ts := by
  rw [parseUnary]
  simp only [h]
  rfl

theorem parseUnary_minus (k : Nat) (m : Tok) (hm : m.type = .minus) (ts : List Tok) :
    parseUnary (k + 1) (m :: ts) = unaryBody k true ts := by
  rw [parseUnary]
  have h : (headType (m :: ts) == .minus) = true := by simp [headType_cons, hm]
  simp only [h, if_true]
  rw [eat_cons _ hm (by decide)]
  rfl

theorem unaryBody_lit (k : Nat) (neg0 : Bool) (c : Tok) (q : Rat) (h : G.Lit c q) (tl : List Tok) :
    unaryBody k neg0 (c :: tl) =
      if firstFactor (headType tl) then
        if headType tl == .factorial then
          match eat .factorial tl with
          | .error e => .error e
          | .ok ts => .ok (.un 0 .fact (.const 0 (if neg0 then -q else q)), ts)
        else
          match parseFactors k tl with
          | .error e => .error e
          | .ok (f, ts) => .ok (.bin 0 .mul (.const 0 (if neg0 then -q else q)) f, ts)
      else .ok (.const 0 (if neg0 then -q else q), tl) := by
  obtain ⟨ty, v⟩ := c
  obtain ⟨h1, h2⟩ := h
  simp only at h1 h2; subst h1
  unfold unaryBody
  have h3 : (!firstFactorPrefix (headType (⟨.constant, v⟩ :: tl))) = false := by
    simp [headType_cons]; decide
  simp only [h3, h2]
  rw [eat_cons (t := ⟨.constant, v⟩) (ty := .constant) _ rfl (by decide)]
  simp

theorem unaryBody_factors (k : Nat) (neg0 : Bool) (ts : List Tok)
    (h : primStart (headType ts) = true) :
    unaryBody k neg0 ts =
      match parseFactors k ts with
      | .error e => .error e
      | .ok (f, ts) => .ok (if neg0 then .un 0 .neg f else f, ts) := by
  unfold unaryBody
  have h3 : (!firstFactorPrefix (headType ts)) = false := by
    revert h; cases headType ts <;> decide
  have h4 : firstFactor (headType ts) = true := primStart_firstFactor _ h
  cases ts with
  | nil => simp [headType, primStart] at h
  | cons t tl =>
    obtain ⟨ty, v⟩ := t
    simp only [headType_cons] at h h3 h4 ⊢
    cases ty <;> first | (exfalso; revert h; decide) | simp [h3, h4, headType_cons]

theorem primStart_not_factorial : ∀ t, primStart t = true → (t == TT.factorial) = false := by
  intro t; cases t <;> decide
theorem primStart_not_minus : ∀ t, primStart t = true → (t == TT.minus) = false := by
  intro t; cases t <;> decide

theorem c_lit (c : Tok) (q : Rat) (h : G.Lit c q) : MU [c] (.const 0 q) := by
  intro fuel rest hfuel hr _
  obtain ⟨k, rfl⟩ : ∃ k, fuel = k + 1 := ⟨fuel - 1, by omega⟩
  rw [List.singleton_append, parseUnary_noMinus k _ (by simp [headType_cons, h.1]),
    unaryBody_lit k false c q h]
  simp [hr]

theorem c_negLit (m c : Tok) (q : Rat) (hm : m.type = .minus) (h : G.Lit c q) :
    MU [m, c] (.const 0 (-q)) := by
  intro fuel rest hfuel hr _
  obtain ⟨k, rfl⟩ : ∃ k, fuel = k + 1 := ⟨fuel - 1, by omega⟩
  rw [show [m, c] ++ rest = m :: c :: rest from rfl, parseUnary_minus k m hm,
    unaryBody_lit k true c q h]
  simp [hr]

theorem c_fact (c b : Tok) (q : Rat) (h : G.Lit c q) (hb : b.type = .factorial) :
    MU [c, b] (.un 0 .fact (.const 0 q)) := by
  intro fuel rest hfuel _ _
  obtain ⟨k, rfl⟩ : ∃ k, fuel = k + 1 := ⟨fuel - 1, by omega⟩
  rw [show [c, b] ++ rest = c :: b :: rest from rfl,
    parseUnary_noMinus k _ (by simp [headType_cons, h.1]), unaryBody_lit k false c q h]
  have h1 : firstFactor (headType (b :: rest)) = true := by simp [headType_cons, hb]; decide
  have h2 : (headType (b :: rest) == .factorial) = true := by simp [headType_cons, hb]
  simp only [h1, h2, if_true]
  rw [eat_cons _ hb (by decide)]
  simp

theorem c_negFact (m c b : Tok) (q : Rat) (hm : m.type = .minus) (h : G.Lit c q)
    (hb : b.type = .factorial) : MU [m, c, b] (.un 0 .fact (.const 0 (-q))) := by
  intro fuel rest hfuel _ _
  obtain ⟨k, rfl⟩ : ∃ k, fuel = k + 1 := ⟨fuel - 1, by omega⟩
  rw [show [m, c, b] ++ rest = m :: c :: b :: rest from rfl, parseUnary_minus k m hm,
    unaryBody_lit k true c q h]
  have h1 : firstFactor (headType (b :: rest)) = true := by simp [headType_cons, hb]; decide
  have h2 : (headType (b :: rest) == .factorial) = true := by simp [headType_cons, hb]
  simp only [h1, h2, if_true]
  rw [eat_cons _ hb (by decide)]

theorem c_litFactors (c : Tok) (q : Rat) (h : G.Lit c q) {fs : List Tok} {f : Ex}
    (a : G.Factors fs f) (ih : MF fs f) : MU (c :: fs) (.bin 0 .mul (.const 0 q) f) := by
  intro fuel rest hfuel hr hx
  obtain ⟨k, rfl⟩ : ∃ k, fuel = k + 1 := ⟨fuel - 1, by omega⟩
  have hs := (hd_Factors a).head rest
  have hp := ih k rest (by simp at hfuel; omega) hr (by
    rwa [endsClosed_cons _ _ (hd_Factors a).ne_nil] at hx)
  rw [List.cons_append, parseUnary_noMinus k _ (by simp [headType_cons, h.1]),
    unaryBody_lit k false c q h]
  simp only [primStart_firstFactor _ hs, primStart_not_factorial _ hs, hp]
  simp

theorem c_negLitFactors (m c : Tok) (q : Rat) (hm : m.type = .minus) (h : G.Lit c q)
    {fs : List Tok} {f : Ex} (a : G.Factors fs f) (ih : MF fs f) :
    MU (m :: c :: fs) (.bin 0 .mul (.const 0 (-q)) f) := by
  intro fuel rest hfuel hr hx
  obtain ⟨k, rfl⟩ : ∃ k, fuel = k + 1 := ⟨fuel - 1, by omega⟩
  have hs := (hd_Factors a).head rest
  have hp := ih k rest (by simp at hfuel; omega) hr (by
    rwa [endsClosed_cons _ _ (by simp), endsClosed_cons _ _ (hd_Factors a).ne_nil] at hx)
  rw [List.cons_append, List.cons_append, parseUnary_minus k m hm, unaryBody_lit k true c q h]
  simp only [primStart_firstFactor _ hs, primStart_not_factorial _ hs, hp]
  simp

theorem c_factors {fs : List Tok} {f : Ex} (a : G.Factors fs f) (ih : MF fs f) : MU fs f := by
  intro fuel rest hfuel hr hx
  obtain ⟨k, rfl⟩ : ∃ k, fuel = k + 1 := ⟨fuel - 1, by omega⟩
  have hs := (hd_Factors a).head rest
  rw [parseUnary_noMinus k _ (primStart_not_minus _ hs), unaryBody_factors k false _ hs,
    ih k rest (by omega) hr hx]
  simp

theorem c_negFactors (m : Tok) (hm : m.type = .minus) {fs : List Tok} {f : Ex}
    (a : G.Factors fs f) (ih : MF fs f) : MU (m :: fs) (.un 0 .neg f) := by
  intro fuel rest hfuel hr hx
  obtain ⟨k, rfl⟩ : ∃ k, fuel = k + 1 := ⟨fuel - 1, by omega⟩
  have hs := (hd_Factors a).head rest
  rw [List.cons_append, parseUnary_minus k m hm, unaryBody_factors k true _ hs,
    ih k rest (by simp at hfuel; omega) hr (by
      rwa [endsClosed_cons _ _ (hd_Factors a).ne_nil] at hx)]
  simp

/-! ### ExpE -/

theorem c_unary {ts : List Tok} {e : Ex} (a : G.UnaryE ts e) (ih : MU ts e) : ME ts e := by
  intro fuel rest hfuel hr
  obtain ⟨k, rfl⟩ : ∃ k, fuel = k + 1 := ⟨fuel - 1, by omega⟩
  rw [parseExponent]
  simp only [unaryStart_firstUnary _ ((hd_UnaryE a).head rest),
    ih k rest (by omega) (contE_ff _ hr) (.inl (contE_exp _ hr)), contE_exp _ hr]
  simp

theorem c_epow (x : Tok) (hx : x.type = .exponent) {ts us : List Tok} {b u : Ex}
    (a : G.UnaryE ts b) (hc : G.endsClosed ts = true) (a' : G.UnaryE us u)
    (ih : MU ts b) (ih' : MU us u) : ME (ts ++ x :: us) (.bin 0 .pow b u) := by
  intro fuel rest hfuel hr
  obtain ⟨k, rfl⟩ : ∃ k, fuel = k + 1 := ⟨fuel - 1, by omega⟩
  have h1 := ih k (x :: us ++ rest) (by simp at hfuel; omega)
    (by simp [headType_cons, hx]; decide) (.inr hc)
  have h2 := ih' k rest (by simp at hfuel; omega) (contE_ff _ hr) (.inl (contE_exp _ hr))
  have h3 : isExpTok (headType (x :: us ++ rest)) = true := by
    simp [headType_cons, hx]; decide
  rw [List.append_assoc, parseExponent]
  simp only [unaryStart_firstUnary _ ((hd_UnaryE a).head _), h1, h3, if_true]
  rw [List.cons_append, eat_cons _ hx (by decide)]
  simp only [unaryStart_firstUnary _ ((hd_UnaryE a').head _), h2]
  simp

/-! ### MultLoop, MultE -/

theorem multLoop_stop (k : Nat) (acc : Ex) (rest : List Tok)
    (h : isMultTok (headType rest) = false) : multLoop (k + 1) acc rest = .ok (acc, rest) := by
  rw [multLoop]; simp [h]

theorem c_mdone (acc : Ex) : MML acc [] acc := by
  intro fuel rest hfuel hr
  obtain ⟨k, rfl⟩ : ∃ k, fuel = k + 1 := ⟨fuel - 1, by omega⟩
  exact multLoop_stop k acc rest (contM_mult _ hr)

theorem c_div (d : Tok) (hd : d.type = .divide) {acc r e : Ex} {ts ts' : List Tok}
    (a : G.ExpE ts r) (a' : G.MultLoop (.bin 0 .div acc r) ts' e)
    (ih : ME ts r) (ih' : MML (.bin 0 .div acc r) ts' e) : MML acc (d :: ts ++ ts') e := by
  intro fuel rest hfuel hr
  obtain ⟨k, rfl⟩ : ∃ k, fuel = k + 1 := ⟨fuel - 1, by omega⟩
  have h1 := ih k (ts' ++ rest) (by simp at hfuel; omega) (cont_MultLoop a' hr)
  have h2 := ih' k rest (by simp at hfuel; omega) hr
  rw [List.cons_append, List.cons_append, List.append_assoc, multLoop]
  simp only [headType_cons, hd]
  rw [eat_cons _ hd (by decide)]
  have h3 : firstExp (headType (ts ++ (ts' ++ rest))) = true :=
    unaryStart_firstUnary _ ((hd_ExpE a).head _)
  have h4 : isMultTok TT.divide = true := by decide
  simp only [h4, h3, h1, if_true]
  exact h2

theorem c_mul (m : Tok) (hm : m.type = .multiply) {acc r : Ex} {ts : List Tok}
    (a : G.MultE ts r) (ih : MM ts r) : MML acc (m :: ts) (.bin 0 .mul acc r) := by
  intro fuel rest hfuel hr
  obtain ⟨k, rfl⟩ : ∃ k, fuel = k + 1 := ⟨fuel - 1, by omega⟩
  obtain ⟨k', rfl⟩ : ∃ k', k = k' + 1 := ⟨k - 1, by simp at hfuel; omega⟩
  have h1 := ih (k' + 1) rest (by simp at hfuel; omega) hr
  rw [List.cons_append, multLoop]
  simp only [headType_cons, hm]
  rw [eat_cons _ hm (by decide)]
  have h3 : firstExp (headType (ts ++ rest)) = true :=
    unaryStart_firstUnary _ ((hd_MultE a).head _)
  have h4 : isMultTok TT.multiply = true := by decide
  simp only [h4, h3, h1, if_true]
  exact multLoop_stop k' _ rest (contM_mult _ hr)

theorem c_mmk {ts ts' : List Tok} {e0 e : Ex} (a : G.ExpE ts e0) (a' : G.MultLoop e0 ts' e)
    (ih : ME ts e0) (ih' : MML e0 ts' e) : MM (ts ++ ts') e := by
  intro fuel rest hfuel hr
  obtain ⟨k, rfl⟩ : ∃ k, fuel = k + 1 := ⟨fuel - 1, by omega⟩
  have h1 := ih k (ts' ++ rest) (by simp at hfuel; omega) (cont_MultLoop a' hr)
  have h2 := ih' k rest (by simp at hfuel; omega) hr
  have h3 : firstExp (headType (ts ++ (ts' ++ rest))) = true :=
    unaryStart_firstUnary _ ((hd_ExpE a).head _)
  rw [List.append_assoc, parseMult]
  simp only [h3, h1, h2]
  simp

/-! ### AddLoop, AddE -/

theorem c_adone (acc : Ex) : MAL acc [] acc := by
  intro fuel rest hfuel hr
  obtain ⟨k, rfl⟩ : ∃ k, fuel = k + 1 := ⟨fuel - 1, by omega⟩
  rw [List.nil_append, addLoop]; simp [contA_add _ hr]

theorem c_plus (p : Tok) (hp : p.type = .plus) {acc r e : Ex} {ts ts' : List Tok}
    (a : G.MultE ts r) (a' : G.AddLoop (.bin 0 .add acc r) ts' e)
    (ih : MM ts r) (ih' : MAL (.bin 0 .add acc r) ts' e) : MAL acc (p :: ts ++ ts') e := by
  intro fuel rest hfuel hr
  obtain ⟨k, rfl⟩ : ∃ k, fuel = k + 1 := ⟨fuel - 1, by omega⟩
  have h1 := ih k (ts' ++ rest) (by simp at hfuel; omega) (cont_AddLoop a' hr)
  have h2 := ih' k rest (by simp at hfuel; omega) hr
  rw [List.cons_append, List.cons_append, List.append_assoc, addLoop]
  simp only [headType_cons, hp]
  rw [eat_cons _ hp (by decide)]
  have h3 : firstMult (headType (ts ++ (ts' ++ rest))) = true :=
    unaryStart_firstUnary _ ((hd_MultE a).head _)
  have h4 : isAddTok TT.plus = true := by decide
  simp only [h4, h3, h1, if_true]
  exact h2

theorem c_minus (p : Tok) (hp : p.type = .minus) {acc r e : Ex} {ts ts' : List Tok}
    (a : G.MultE ts r) (a' : G.AddLoop (.bin 0 .sub acc r) ts' e)
    (ih : MM ts r) (ih' : MAL (.bin 0 .sub acc r) ts' e) : MAL acc (p :: ts ++ ts') e := by
  intro fuel rest hfuel hr
  obtain ⟨k, rfl⟩ : ∃ k, fuel = k + 1 := ⟨fuel - 1, by omega⟩
  have h1 := ih k (ts' ++ rest) (by simp at hfuel; omega) (cont_AddLoop a' hr)
  have h2 := ih' k rest (by simp at hfuel; omega) hr
  rw [List.cons_append, List.cons_append, List.append_assoc, addLoop]
  simp only [headType_cons, hp]
  rw [eat_cons _ hp (by decide)]
  have h3 : firstMult (headType (ts ++ (ts' ++ rest))) = true :=
    unaryStart_firstUnary _ ((hd_MultE a).head _)
  have h4 : isAddTok TT.minus = true := by decide
  simp only [h4, h3, h1, if_true]
  exact h2

theorem c_amk {ts ts' : List Tok} {e0 e : Ex} (a : G.MultE ts e0) (a' : G.AddLoop e0 ts' e)
    (ih : MM ts e0) (ih' : MAL e0 ts' e) : MA (ts ++ ts') e := by
  intro fuel rest hfuel hr
  obtain ⟨k, rfl⟩ : ∃ k, fuel = k + 1 := ⟨fuel - 1, by omega⟩
  have h1 := ih k (ts' ++ rest) (by simp at hfuel; omega) (cont_AddLoop a' hr)
  have h2 := ih' k rest (by simp at hfuel; omega) hr
  have h3 : firstMult (headType (ts ++ (ts' ++ rest))) = true :=
    unaryStart_firstUnary _ ((hd_MultE a).head _)
  rw [List.append_assoc, parseAdd]
  simp only [h3, h1, h2]
  simp

/-! ### assembling the mutual induction -/

theorem addE_complete {ts : List Tok} {e : Ex} (h : G.AddE ts e) : MA ts e :=
  G.AddE.rec (motive_1 := fun ts e _ => MP ts e) (motive_2 := fun ts es _ => MS ts es)
    (motive_3 := fun ts e _ => MF ts e) (motive_4 := fun ts e _ => MU ts e)
    (motive_5 := fun ts e _ => ME ts e) (motive_6 := fun acc ts e _ => MML acc ts e)
    (motive_7 := fun ts e _ => MM ts e) (motive_8 := fun acc ts e _ => MAL acc ts e)
    (motive_9 := fun ts e _ => MA ts e)
    (fun t h => c_var t h)
    (fun f o c hf ho hc _ _ _ ih => c_fn f o c hf ho hc ih)
    (fun o c ho hc _ _ _ ih => c_paren o c ho hc ih)
    (fun _ ih => c_one ih)
    (fun a b ih ih' => c_cons a b ih ih')
    (fun _ ih => c_plain ih)
    (fun x hx _ _ _ _ _ _ _ _ b heq ih ih' => c_pow x hx b heq ih ih')
    (fun c q h => c_lit c q h)
    (fun m c q hm h => c_negLit m c q hm h)
    (fun c b q h hb => c_fact c b q h hb)
    (fun m c b q hm h hb => c_negFact m c b q hm h hb)
    (fun c q h _ _ a ih => c_litFactors c q h a ih)
    (fun m c q hm h _ _ a ih => c_negLitFactors m c q hm h a ih)
    (fun a ih => c_factors a ih)
    (fun m hm _ _ a ih => c_negFactors m hm a ih)
    (fun a ih => c_unary a ih)
    (fun x hx _ _ _ _ a hc a' ih ih' => c_epow x hx a hc a' ih ih')
    (fun acc => c_mdone acc)
    (fun d hd _ _ _ _ _ a a' ih ih' => c_div d hd a a' ih ih')
    (fun m hm _ _ _ a ih => c_mul m hm a ih)
    (fun a a' ih ih' => c_mmk a a' ih ih')
    (fun acc => c_adone acc)
    (fun p hp _ _ _ _ _ a a' ih ih' => c_plus p hp a a' ih ih')
    (fun p hp _ _ _ _ _ a a' ih ih' => c_minus p hp a a' ih ih')
    (fun a a' ih ih' => c_amk a a' ih ih')
    h

/-! ### EqLoop, EqualE -/

theorem eqLoop_complete {acc : Ex} {ts : List Tok} {e : Ex} (h : G.EqLoop acc ts e) :
    ∀ fuel rest, 8 * ts.length + 1 ≤ fuel → contQ (headType rest) = true →
      equalLoop fuel acc (ts ++ rest) = .ok (e, rest) := by
  induction h with
  | done acc =>
    intro fuel rest hfuel hr
    obtain ⟨k, rfl⟩ : ∃ k, fuel = k + 1 := ⟨fuel - 1, by omega⟩
    rw [List.nil_append, equalLoop]; simp [contQ_eq _ hr]
  | @eq q hq acc r e ts ts' a a' ih =>
    intro fuel rest hfuel hr
    obtain ⟨k, rfl⟩ : ∃ k, fuel = k + 1 := ⟨fuel - 1, by omega⟩
    have h1 := addE_complete a k (ts' ++ rest) (by simp at hfuel; omega) (cont_EqLoop a' hr)
    have h2 := ih k rest (by simp at hfuel; omega) hr
    rw [List.cons_append, List.cons_append, List.append_assoc, equalLoop]
    have h3 : firstAdd (headType (ts ++ (ts' ++ rest))) = true :=
      unaryStart_firstUnary _ ((hd_AddE a).head _)
    have h4 : isEqualTok (headType (q :: (ts ++ (ts' ++ rest)))) = true := by
      simp [headType_cons, hq]; decide
    simp only [h4, if_true]
    rw [eat_cons _ hq (by decide)]
    simp only [h3, h1, if_true]
    exact h2

theorem equalE_complete {ts : List Tok} {e : Ex} (h : G.EqualE ts e) :
    ∀ fuel rest, 8 * ts.length + 7 ≤ fuel → contQ (headType rest) = true →
      parseEqual fuel (ts ++ rest) = .ok (e, rest) := by
  cases h with
  | @mk ts ts' e0 e a a' =>
    intro fuel rest hfuel hr
    obtain ⟨k, rfl⟩ : ∃ k, fuel = k + 1 := ⟨fuel - 1, by omega⟩
    have h1 := addE_complete a k (ts' ++ rest) (by simp at hfuel; omega) (cont_EqLoop a' hr)
    have h2 := eqLoop_complete a' k rest (by simp at hfuel; omega) hr
    have h3 : firstAdd (headType (ts ++ (ts' ++ rest))) = true :=
      unaryStart_firstUnary _ ((hd_AddE a).head _)
    rw [List.append_assoc, parseEqual]
    simp only [h3, h1]
    simpa using h2

theorem hd_EqualE {ts e} (h : G.EqualE ts e) : StartsWith unaryStart ts := by
  cases h with
  | mk a b => exact (hd_AddE a).append _

theorem unaryStart_not_eof : ∀ t, unaryStart t = true → (t == TT.eof) = false := by
  intro t; cases t <;> decide

end PC

open PC in

theorem parseToks_complete (body : List Tok) (e : Ex) (hb : ∀ t ∈ body, t.type ≠ .eof)
    (h : G.EqualE body e) : parseToks (body ++ [eofTok]) = .ok e := by
  -- `hb` is not needed: every terminal of the grammar fixes its token type, none of them `.eof`
  have _ := hb
  have h0 : (headType (body ++ [eofTok]) == .eof) = false :=
    unaryStart_not_eof _ ((hd_EqualE h).head _)
  have h1 := equalE_complete h (parseFuel (body ++ [eofTok])) [eofTok]
    (by simp [parseFuel]; omega) (by decide)
  unfold parseToks
  simp only [h0, h1]
  simp [headType, eofTok]

end Mathy
