/-
Refinement relations between expressions and their congruence through contexts.
-/
import Mathy.Model.Rules
import Mathlib.Tactic.Ring
import Mathlib.Tactic.FieldSimp
import Mathlib.Tactic.Linarith
import Mathlib.Algebra.Order.Field.Rat

namespace Mathy

/-- `y` refines `x`: if `x` is a value so is `y`, the same one; if `x` is a failed equation so
is `y`. -/
def RRef (x y : Res) : Prop :=
  (∀ v, x = .ok v → y = .ok v) ∧ (x = .error .unequal → y = .error .unequal)

/-- `b` refines `a`: wherever `a` has a value `b` has the same value, and wherever `a` is an
equation whose sides differ so is `b`.  (Stronger than "equal wherever both are defined": a
rewrite may only enlarge the domain of definition; and transitive.) -/
def Refines (a b : Ex) : Prop := ∀ env, RRef (eval env a) (eval env b)

/-- truth refinement of results: the value may change -/
def RHolds (x y : Res) : Prop :=
  ((∃ v, x = .ok v) → ∃ v', y = .ok v') ∧ (x = .error .unequal → y = .error .unequal)

/-- Truth refinement (for equations whose common value may change, i.e. balanced moves):
wherever `a` holds `b` holds, wherever `a` does not hold `b` does not hold. -/
def HoldsRefines (a b : Ex) : Prop := ∀ env, RHolds (eval env a) (eval env b)

theorem RRef.refl (x : Res) : RRef x x := ⟨fun _ h => h, fun h => h⟩

theorem RRef.trans {x y z : Res} (h1 : RRef x y) (h2 : RRef y z) : RRef x z :=
  ⟨fun v h => h2.1 v (h1.1 v h), fun h => h2.2 (h1.2 h)⟩

theorem Refines.refl (a : Ex) : Refines a a := fun _ => RRef.refl _

theorem Refines.trans {a b c : Ex} (h1 : Refines a b) (h2 : Refines b c) : Refines a c :=
  fun env => (h1 env).trans (h2 env)

theorem HoldsRefines.refl (a : Ex) : HoldsRefines a a := fun _ => ⟨fun h => h, fun h => h⟩

theorem HoldsRefines.trans {a b c : Ex} (h1 : HoldsRefines a b) (h2 : HoldsRefines b c) :
    HoldsRefines a c :=
  fun env => ⟨fun h => (h2 env).1 ((h1 env).1 h), fun h => (h2 env).2 ((h1 env).2 h)⟩

theorem Refines.holds {a b : Ex} (h : Refines a b) : HoldsRefines a b :=
  fun env => ⟨fun ⟨v, hv⟩ => ⟨v, (h env).1 v hv⟩, (h env).2⟩

/-- Same evaluation at every assignment. -/
def EvalEq (a b : Ex) : Prop := ∀ env, eval env a = eval env b

theorem EvalEq.refines {a b : Ex} (h : EvalEq a b) : Refines a b :=
  fun env => by rw [h env]; exact RRef.refl _

@[simp] theorem eval_clone (env : Env) (e : Ex) : eval env e.clone = eval env e := by
  induction e with
  | const t v => rfl
  | var t x => rfl
  | un t o c ih => simp [Ex.clone, eval, ih]
  | bin t o l r ihl ihr => simp [Ex.clone, eval, ihl, ihr]

theorem evalEq_clone (e : Ex) : EvalEq e.clone e := fun env => eval_clone env e

/-! ### Congruence -/

theorem RRef.un {x y : Res} (h : RRef x y) (o : Uop) : RRef (Res.un o x) (Res.un o y) := by
  obtain ⟨hv, hu⟩ := h
  rcases x with e | a
  · cases e
    · exact ⟨fun v h => by simp [Res.un] at h, fun h => by simp [Res.un] at h⟩
    · rw [hu rfl]; exact RRef.refl _
  · rw [hv a rfl]; exact RRef.refl _

theorem RRef.binL {x y : Res} (h : RRef x y) (o : Bop) (z : Res) :
    RRef (Res.bin o x z) (Res.bin o y z) := by
  obtain ⟨hv, hu⟩ := h
  rcases x with e | a
  · cases e
    · rcases z with e' | c
      · cases e'
        · exact ⟨fun v h => by simp [Res.bin] at h, fun h => by simp [Res.bin, Bad.worse] at h⟩
        · rcases y with e'' | b
          · cases e'' <;> exact RRef.refl _
          · exact ⟨fun v h => by simp [Res.bin] at h, fun _ => by simp [Res.bin]⟩
      · exact ⟨fun v h => by simp [Res.bin] at h, fun h => by simp [Res.bin] at h⟩
    · rw [hu rfl]; exact RRef.refl _
  · rw [hv a rfl]; exact RRef.refl _

theorem RRef.binR {x y : Res} (h : RRef x y) (o : Bop) (z : Res) :
    RRef (Res.bin o z x) (Res.bin o z y) := by
  obtain ⟨hv, hu⟩ := h
  rcases x with e | a
  · cases e
    · rcases z with e' | c
      · cases e'
        · exact ⟨fun v h => by simp [Res.bin] at h, fun h => by simp [Res.bin, Bad.worse] at h⟩
        · rcases y with e'' | b
          · cases e'' <;> exact RRef.refl _
          · exact ⟨fun v h => by simp [Res.bin] at h, fun _ => by simp [Res.bin]⟩
      · exact ⟨fun v h => by simp [Res.bin] at h, fun h => by simp [Res.bin] at h⟩
    · rw [hu rfl]; exact RRef.refl _
  · rw [hv a rfl]; exact RRef.refl _

theorem Refines.fill {a b : Ex} (h : Refines a b) (f : Frame) : Refines (f.fill a) (f.fill b) := by
  intro env
  cases f with
  | binL t o r => exact (h env).binL o _
  | binR t o l => exact (h env).binR o _
  | un t o => exact (h env).un o

/-- A refinement of the focused subtree is a refinement of the whole tree. -/
theorem Refines.plug {a b : Ex} (h : Refines a b) (k : Ctx) : Refines (plug k a) (plug k b) := by
  induction k generalizing a b with
  | nil => exact h
  | cons f fs ih => exact ih (h.fill f)

end Mathy
