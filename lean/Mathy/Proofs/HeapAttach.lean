/-
Heap-level re-attachment: `parent.set_left(new)` / `parent.set_right(new)` — what
`ExpressionChangeRule.done` does through `set_side` when a rule has built its replacement — on a
heap that represents a tree of distinct objects, with `new` the root of a represented tree of
other objects, yields a heap that represents the tree with that child replaced.  Together with
`heap_rotate_correct` (associative swap) and `Heap.clone` (C13Heap) this covers the pointer
operations the rules are composed of.
-/
import Mathy.Proofs.HeapRotate
import Mathy.Model.HeapOps
namespace Mathy
open BT

theorem BT.replaceAt_nil (t s : BT) : t.replaceAt [] s = s := by
  cases t <;> rfl

theorem BT.rootId_replaceAt_cons (t : BT) (d : Dir) (p : Path) (s : BT) (ht : t ≠ .nil) :
    (t.replaceAt (d :: p) s).rootId = t.rootId := by
  cases t with
  | nil => exact absurd rfl ht
  | node i l r => cases d <;> rfl

theorem Heap.set_ne (h : Heap) (a b : Nat) (c : Cell) (hab : b ≠ a) : (h.set a c) b = h b := by
  simp [Heap.set, hab]

theorem Heap.set_eq (h : Heap) (a : Nat) (c : Cell) : (h.set a c) a = c := by
  simp [Heap.set]

/-- the cells `set_side` writes: the parent's link and the new child's parent pointer -/
theorem Heap.setSide_other (h : Heap) (q : Nat) (c : Option Nat) (d : Dir) (x : Nat)
    (hxq : x ≠ q) (hxc : some x ≠ c) : (h.setSide q c d) x = h x := by
  cases d <;> cases c with
  | none => simp [Heap.setSide, Heap.setLeft, Heap.setRight, Heap.setParent, Heap.set, hxq]
  | some y =>
    have hxy : x ≠ y := fun e => hxc (by rw [e])
    simp [Heap.setSide, Heap.setLeft, Heap.setRight, Heap.setParent, Heap.set, hxq, hxy]

theorem Heap.setSide_parent (h : Heap) (q : Nat) (y : Nat) (d : Dir) (hyq : y ≠ q) :
    (h.setSide q (some y) d) y = { h y with parent := some q } := by
  cases d <;> simp [Heap.setSide, Heap.setLeft, Heap.setRight, Heap.setParent, Heap.set, hyq]

theorem Heap.setSide_self (h : Heap) (q : Nat) (c : Option Nat) (d : Dir) (hc : c ≠ some q) :
    (h.setSide q c d) q = (match d with
      | .L => { h q with left := c }
      | .R => { h q with right := c }) := by
  cases c with
  | none => cases d <;> simp [Heap.setSide, Heap.setLeft, Heap.setRight, Heap.setParent, Heap.set]
  | some y =>
    have hyq : q ≠ y := fun e => hc (by rw [e])
    cases d <;> simp [Heap.setSide, Heap.setLeft, Heap.setRight, Heap.setParent, Heap.set, hyq]

/-- the new sub-tree hangs under `q` after `q.set_side(root of s, d)` -/
theorem attach_new_subtree (h : Heap) (q : Nat) (s : BT) (sp : Option Nat) (d : Dir)
    (hs : Rep h s sp) (hnd : s.ids.Nodup) (hq : q ∉ s.ids) :
    Rep (h.setSide q s.rootId d) s (some q) := by
  refine hs.reparent hnd ?_ ?_
  · intro x hx hne
    exact Heap.setSide_other h q s.rootId d x (fun e => hq (e ▸ hx)) hne
  · intro x hx
    rw [hx]
    exact Heap.setSide_parent h q x d (fun e => hq (e ▸ BT.rootId_mem hx))

/-- one level: replacing a child of the node `q` itself -/
theorem attach_local (h : Heap) (q : Nat) (l r s : BT) (par sp : Option Nat) (d : Dir)
    (hr : Rep h (.node q l r) par) (hs : Rep h s sp)
    (hnd : ((BT.node q l r).ids ++ s.ids).Nodup) :
    Rep (h.setSide q s.rootId d) ((BT.node q l r).replaceAt [d] s) par := by
  obtain ⟨h1, h2, h3, h4, h5⟩ := hr
  have hnd' := hnd
  simp only [ids, List.nodup_append, List.nodup_cons, List.mem_cons, List.mem_append] at hnd
  obtain ⟨⟨hlnd, ⟨hqr, hrnd⟩, hdis1⟩, hsnd, hdis2⟩ := hnd
  have hql : q ∉ l.ids := fun hx => hdis1 q hx q (Or.inl rfl) rfl
  have hqs : q ∉ s.ids := fun hx => hdis2 q (Or.inr (Or.inl rfl)) q hx rfl
  have hsroot : s.rootId ≠ some q := fun e => hqs (BT.rootId_mem e)
  have hnew := attach_new_subtree h q s sp d hs hsnd hqs
  have hcell := Heap.setSide_self h q s.rootId d hsroot
  cases d with
  | L =>
    show Rep _ (.node q (l.replaceAt [] s) r) par
    rw [BT.replaceAt_nil]
    refine ⟨by rw [hcell], by rw [hcell]; exact h2, by rw [hcell]; exact h3, hnew, ?_⟩
    refine h5.frame (fun x hx => Heap.setSide_other h q s.rootId .L x (fun e => hqr (e ▸ hx)) ?_)
    intro e
    exact hdis2 x (Or.inr (Or.inr hx)) x (BT.rootId_mem e.symm) rfl
  | R =>
    show Rep _ (.node q l (r.replaceAt [] s)) par
    rw [BT.replaceAt_nil]
    refine ⟨by rw [hcell]; exact h1, by rw [hcell], by rw [hcell]; exact h3, ?_, hnew⟩
    refine h4.frame (fun x hx => Heap.setSide_other h q s.rootId .R x (fun e => hql (e ▸ hx)) ?_)
    intro e
    exact hdis2 x (Or.inl hx) x (BT.rootId_mem e.symm) rfl

theorem BT.sub_root_mem : ∀ (p : Path) (t : BT) (q : Nat), (t.sub p).rootId = some q → q ∈ t.ids := by
  intro p
  induction p with
  | nil => intro t q h; exact BT.rootId_mem (by simpa [sub] using h)
  | cons e p ih =>
    intro t q h
    cases t with
    | nil => simp [sub, rootId] at h
    | node i l r =>
      cases e with
      | L => have := ih l q (by simpa [sub] using h); simp [ids, this]
      | R => have := ih r q (by simpa [sub] using h); simp [ids, this]

theorem BT.sub_nil (p : Path) : (BT.nil).sub p = .nil := by
  cases p with
  | nil => rfl
  | cons e p => cases e <;> rfl

/-- **heap-level re-attachment at any depth** -/
theorem heap_attach_correct (h : Heap) (s : BT) (sp : Option Nat) (hs : Rep h s sp) (d : Dir) (q : Nat) :
    ∀ (p : Path) (t : BT) (par : Option Nat), Rep h t par → (t.ids ++ s.ids).Nodup →
      (t.sub p).rootId = some q →
      Rep (h.setSide q s.rootId d) (t.replaceAt (p ++ [d]) s) par := by
  intro p
  induction p with
  | nil =>
    intro t par hr hnd hq
    cases t with
    | nil => simp [sub, rootId] at hq
    | node i l r =>
      have : i = q := by simpa [sub, rootId] using hq
      subst this
      exact attach_local h i l r s par sp d hr hs hnd
  | cons e p ih =>
    intro t par hr hnd hq
    cases t with
    | nil => simp [sub, rootId] at hq
    | node i l r =>
      obtain ⟨h1, h2, h3, h4, h5⟩ := hr
      have hnd0 := hnd
      simp only [ids, List.nodup_append, List.nodup_cons, List.mem_cons, List.mem_append] at hnd
      obtain ⟨⟨hlnd, ⟨hir, hrnd⟩, hdis1⟩, hsnd, hdis2⟩ := hnd
      have hil : i ∉ l.ids := fun hx => hdis1 i hx i (Or.inl rfl) rfl
      have his : i ∉ s.ids := fun hx => hdis2 i (Or.inr (Or.inl rfl)) i hx rfl
      cases e with
      | L =>
        have hq' : (l.sub p).rootId = some q := by simpa [sub] using hq
        have hql : q ∈ l.ids := BT.sub_root_mem p l q hq'
        have hlne : l ≠ .nil := by
          intro e; rw [e, BT.sub_nil] at hq'; simp [rootId] at hq'
        have hrec := ih l (some i) h4 (by
          simp only [List.nodup_append]
          exact ⟨hlnd, hsnd, fun a ha b hb => hdis2 a (Or.inl ha) b hb⟩) hq'
        have hiq : i ≠ q := fun e => hil (e ▸ hql)
        have hcell : (h.setSide q s.rootId d) i = h i :=
          Heap.setSide_other h q s.rootId d i hiq (fun e => his (BT.rootId_mem e.symm))
        show Rep _ (.node i (l.replaceAt (p ++ [d]) s) r) par
        refine ⟨?_, by rw [hcell]; exact h2, by rw [hcell]; exact h3, hrec, ?_⟩
        · rw [hcell, h1]
          cases hp : p ++ [d] with
          | nil => simp at hp
          | cons e' p' => exact (BT.rootId_replaceAt_cons l e' p' s hlne).symm
        · refine h5.frame (fun x hx => Heap.setSide_other h q s.rootId d x ?_ ?_)
          · intro e; exact hdis1 q hql x (Or.inr hx) e.symm
          · intro e; exact hdis2 x (Or.inr (Or.inr hx)) x (BT.rootId_mem e.symm) rfl
      | R =>
        have hq' : (r.sub p).rootId = some q := by simpa [sub] using hq
        have hqr : q ∈ r.ids := BT.sub_root_mem p r q hq'
        have hrne : r ≠ .nil := by
          intro e; rw [e, BT.sub_nil] at hq'; simp [rootId] at hq'
        have hrec := ih r (some i) h5 (by
          simp only [List.nodup_append]
          exact ⟨hrnd, hsnd, fun a ha b hb => hdis2 a (Or.inr (Or.inr ha)) b hb⟩) hq'
        have hiq : i ≠ q := fun e => hir (e ▸ hqr)
        have hcell : (h.setSide q s.rootId d) i = h i :=
          Heap.setSide_other h q s.rootId d i hiq (fun e => his (BT.rootId_mem e.symm))
        show Rep _ (.node i l (r.replaceAt (p ++ [d]) s)) par
        refine ⟨by rw [hcell]; exact h1, ?_, by rw [hcell]; exact h3, ?_, hrec⟩
        · rw [hcell, h2]
          cases hp : p ++ [d] with
          | nil => simp at hp
          | cons e' p' => exact (BT.rootId_replaceAt_cons r e' p' s hrne).symm
        · refine h4.frame (fun x hx => Heap.setSide_other h q s.rootId d x ?_ ?_)
          · intro e; exact hdis1 x hx q (Or.inr hqr) e
          · intro e; exact hdis2 x (Or.inl hx) x (BT.rootId_mem e.symm) rfl

end Mathy
