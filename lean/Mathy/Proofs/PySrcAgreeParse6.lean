/-
The model's parser IS the repository's parser (translated source) — part 6: `parse_equal`,
`_parse`, the tokens the tokenizer produces, and the end-to-end statement.
-/
import Mathy.Proofs.PySrcAgreeParse5
import Mathy.Proofs.ParserFuelAux
import Mathy.Props.C11
set_option linter.unusedSimpArgs false
set_option linter.unusedSectionVars false
namespace Mathy.SrcAgree
open Mathy.Py Mathy.Gen.Src Mathy.PS

/-! ### `parse_equal` -/

theorem equalL_agree : ∀ (n : Nat) (acc : Ex) (ts : List Tok), Good ts → equalLoop n acc ts ≠ .error .fuel →
    ExpressionParser_parse_equal_while1 (n + 1) (stOf ts) acc = liftL (equalLoop n acc ts)
  | 0, _, _, _, h => by simp [equalLoop] at h
  | n + 1, acc, ts, hg, hne => by
    have ih := ag_all n
    rw [equalLoop] at hne ⊢
    rw [ExpressionParser_parse_equal_while1]
    simp only [check_eq, set_is_equal, Bool.false_and, Bool.false_eq_true, if_false, bind_ok]
    cases hop : isEqualTok (headType ts)
    · simp [liftL]
    · have hhd : headType ts = .equal := by simpa [isEqualTok] using hop
      simp only [if_true, cur_type, hop] at hne ⊢
      rw [eat_eq _ ts hg.wf, hhd]
      cases he : eat .equal ts with
      | error e => simp [liftL, bind_err]
      | ok ts1 =>
        have hg1 : Good ts1 := hg.of_eat he
        simp only [he] at hne
        simp only [bind_ok, check_eq, set_first_add, Bool.false_and, Bool.false_eq_true, if_false]
        cases hf : firstAdd (headType ts1)
        · simp [liftL, errOf, bind_ok]
        · simp only [if_true, hf] at hne ⊢
          cases hm : parseAdd n ts1 with
          | error e =>
            have he' : e ≠ .fuel := by rintro rfl; simp [hm] at hne
            rw [ih.add ts1 hg1 (by rw [hm]; simpa using he')]
            simp [hm, liftP, liftL, bind_err]
          | ok p =>
            obtain ⟨r, ts2⟩ := p
            have hg2 : Good ts2 := hg1.of_consumes ((PS.ih_all n).add _ _ _ hm)
            rw [ih.add ts1 hg1 (by simp [hm]), hm]
            simp only [hm] at hne
            simp only [liftP, bind_ok, Option.isSome_some, Bool.not_true, Bool.or_self, Bool.false_eq_true, if_false,
              optUse_some]
            exact equalL_agree n _ ts2 hg2 hne

theorem equal_agree (n : Nat) (ts : List Tok) (hg : Good ts) (hne : parseEqual n ts ≠ .error .fuel) :
    ExpressionParser_parse_equal (n + 1) (stOf ts) = liftP (parseEqual n ts) := by
  cases n with
  | zero => simp [parseEqual] at hne
  | succ n =>
    have ih := ag_all n
    rw [parseEqual] at hne ⊢
    rw [ExpressionParser_parse_equal]
    simp only [check_eq, set_first_add, Bool.true_and]
    cases hf : firstAdd (headType ts)
    · simp [liftP, errOf, bind_err]
    · simp only [Bool.not_true, Bool.false_eq_true, if_false, bind_ok, hf] at hne ⊢
      cases hm : parseAdd n ts with
      | error e =>
        have he : e ≠ .fuel := by rintro rfl; simp [hm] at hne
        rw [ih.add ts hg (by rw [hm]; simpa using he)]
        simp [hm, liftP, bind_err]
      | ok p =>
        obtain ⟨e, ts'⟩ := p
        have hg' : Good ts' := hg.of_consumes ((PS.ih_all n).add _ _ _ hm)
        rw [ih.add ts hg (by simp [hm]), hm]
        simp only [hm] at hne
        simp only [liftP, bind_ok]
        rw [equalL_agree n e ts' hg' hne]
        cases equalLoop n e ts' with
        | error k => simp [liftL, liftP, bind_err]
        | ok q => obtain ⟨e2, ts2⟩ := q; simp [liftL, liftP, bind_ok]

/-! ### `_parse`: the trailing-token loop -/

theorem eof_bits : TOKEN_TYPES_EOF = tyBits .eof := tt_consts.2.2.2.2.2.2.2.2.2.2.2.2.1

theorem trail_ok (toks : List Token) (e : Ex) : ∀ (rest : List Tok), WF rest → ∀ (lo : List Char) (fuel : Nat),
    rest.length < fuel →
    ∃ lo' st', ExpressionParser__parse_while1 fuel (stOf rest) toks e lo = .ok (lo ++ lo', st') := by
  intro rest
  induction rest with
  | nil => intro h; exact absurd rfl h.ne_nil
  | cons t r ih =>
    intro hw lo fuel hf
    obtain ⟨k, rfl⟩ : ∃ k, fuel = k + 1 := ⟨fuel - 1, by simp only [List.length_cons] at hf; omega⟩
    rw [ExpressionParser__parse_while1]
    simp only [cur_type, cur_value, eof_bits, tyBits_bne, headType_cons, hd_cons]
    cases hte : t.type != TT.eof
    · exact ⟨[], stOf (t :: r), by simp⟩
    · have hne : t.type ≠ .eof := by simpa using hte
      have hw' : WF r := hw.tail hne
      simp only [if_true]
      rw [next_eq _ hw]
      have hadv : advance (t :: r) = .ok r := by
        simp only [advance]
        rw [if_neg (by simpa using hne)]
      simp only [hadv, bind_ok]
      obtain ⟨lo', st', h⟩ := ih hw' (lo ++ t.value) k (by simp only [List.length_cons] at hf; omega)
      exact ⟨t.value ++ lo', st', by rw [h]; simp⟩

theorem trail_eof (toks : List Token) (e : Ex) (rest : List Tok) (h : headType rest = .eof) (lo : List Char)
    (fuel : Nat) :
    ExpressionParser__parse_while1 (fuel + 1) (stOf rest) toks e lo = .ok (lo, stOf rest) := by
  rw [ExpressionParser__parse_while1]
  simp [cur_type, eof_bits, tyBits_bne, h]

theorem trail_ne (toks : List Token) (e : Ex) (rest : List Tok) (hg : Good rest) (hne : headType rest ≠ .eof)
    (fuel : Nat) (hf : rest.length < fuel) :
    ∃ lo' st', ExpressionParser__parse_while1 fuel (stOf rest) toks e [] = .ok (lo', st') ∧ lo' ≠ [] := by
  cases rest with
  | nil => exact absurd rfl hg.wf.ne_nil
  | cons t r =>
    have hte : t.type ≠ .eof := hne
    have hv : t.value ≠ [] := (hg.ok t (by simp)).2 hte
    obtain ⟨k, rfl⟩ : ∃ k, fuel = k + 1 := ⟨fuel - 1, by simp only [List.length_cons] at hf; omega⟩
    rw [ExpressionParser__parse_while1]
    simp only [cur_type, cur_value, eof_bits, tyBits_bne, headType_cons, hd_cons]
    have hb : (t.type != TT.eof) = true := by simpa using hte
    simp only [hb, if_true]
    rw [next_eq _ hg.wf]
    have hadv : advance (t :: r) = .ok r := by
      simp only [advance]
      rw [if_neg (by simpa using hte)]
    simp only [hadv, bind_ok, List.nil_append]
    obtain ⟨lo', st', h⟩ := trail_ok toks e r (hg.wf.tail hte) t.value k
      (by simp only [List.length_cons] at hf; omega)
    exact ⟨t.value ++ lo', st', h, by simp [hv]⟩

/-- **`ExpressionParser._parse` as translated is the model's `parseToks`**, on every token list of
the shape the tokenizer produces -/
theorem parse_agree (st : ParserState) (ts : List Tok) (hg : Good ts) :
    (ExpressionParser__parse st (ts.map tokToPy)).map Prod.fst =
      match parseToks ts with
      | .ok e => .ok e
      | .error k => .error (errOf k) := by
  obtain ⟨t, r, rfl⟩ : ∃ t r, ts = t :: r := by
    cases ts with
    | nil => exact absurd rfl hg.wf.ne_nil
    | cons t r => exact ⟨t, r, rfl⟩
  unfold ExpressionParser__parse parseToks
  have hnext : ExpressionParser_next ⟨(t :: r).map tokToPy, ⟨[], TOKEN_TYPES_Invalid⟩⟩ =
      .ok (t.type != .eof, stOf (t :: r)) := by
    have hinv : TOKEN_TYPES_Invalid = tyBits .invalid := tt_consts.2.2.2.2.2.2.2.2.2.2.2.2.2
    simp [ExpressionParser_next, listPop0, stOf, hd, eof_bits, hinv, tokToPy_type, tyBits_bne, tyBits_beq, bind_ok]
  simp only [hnext, bind_ok, headType_cons]
  by_cases hte : t.type = TT.eof
  swap
  · have hb : (t.type != TT.eof) = true := by simpa using hte
    have hb2 : (t.type == TT.eof) = false := by simpa using hte
    simp only [hb, hb2, Bool.not_true, Bool.false_eq_true, if_false, List.length_map]
    have hnf : parseEqual (parseFuel (t :: r)) (t :: r) ≠ .error .fuel :=
      Mathy.PF.parseEqual_ne_fuel _ _ (by simp only [parseFuel]; omega)
    have hfuel : 8 * (t :: r).length + 17 = parseFuel (t :: r) + 1 := by simp only [parseFuel]
    rw [hfuel, equal_agree _ _ hg hnf]
    cases hm : parseEqual (parseFuel (t :: r)) (t :: r) with
    | error k => simp [liftP, bind_err, Except.map]
    | ok p =>
      obtain ⟨e, rest⟩ := p
      have hgr : Good rest := hg.of_consumes (PS.parseEqual_sound _ _ _ _ hm)
      simp only [liftP, bind_ok]
      have hlen : (stOf rest).tokens.length + 2 = rest.length + 1 := by
        cases rest with
        | nil => exact absurd rfl hgr.wf.ne_nil
        | cons x xs => simp [stOf]
      rw [hlen]
      cases hre : headType rest == TT.eof
      · obtain ⟨lo', st', h, hlo⟩ := trail_ne ((t :: r).map tokToPy) e rest hgr (by simpa using hre) (rest.length + 1)
          (by omega)
        rw [h]
        simp [bind_ok, hlo, Except.map, errOf]
      · rw [trail_eof _ _ _ (by simpa using hre)]
        simp [bind_ok, Except.map]
  · have hb : (t.type != TT.eof) = false := by simp [hte]
    simp [hb, hte, Except.map, errOf]

/-! ### the tokenizer's output satisfies the invariant -/

theorem operatorTok_plain (pad : Bool) (c : Char) (t : List Tok) (h : operatorTok pad c = some t) :
    ∀ x ∈ t, x.type ≠ .function ∧ x.value ≠ [] := by
  unfold operatorTok at h
  split_ifs at h <;> simp at h <;> subst h <;> cases pad <;> simp

theorem alphaToks_plain (run : List Char) (hne : run ≠ []) :
    ∀ t ∈ alphaToks run, (t.type = .function → t.value = "sgn".toList) ∧ t.value ≠ [] := by
  unfold alphaToks
  split_ifs with hc
  · intro t ht
    simp only [List.mem_singleton] at ht
    subst ht
    refine ⟨fun _ => ?_, hne⟩
    simpa [functionNames] using hc
  · intro t ht
    simp only [List.mem_map] at ht
    obtain ⟨c, _, rfl⟩ := ht
    simp

theorem tb_plain (pad : Bool) (s : List Char) :
    ∀ ts, tb pad s = .ok ts → ∀ t ∈ ts, (t.type = .function → t.value = "sgn".toList) ∧ t.value ≠ [] := by
  induction s using tok_induction with
  | nil => intro ts h; rw [tb_nil] at h; cases h; simp
  | num c cs hn ih =>
    intro ts h
    rw [tb_number pad c cs hn, map_eq_ok_iff] at h
    obtain ⟨body, hb, rfl⟩ := h
    intro t ht
    simp only [List.mem_cons] at ht
    rcases ht with rfl | ht
    · simp
    · exact ih body hb t ht
  | alpha c cs hn ha ih =>
    intro ts h
    rw [tb_alpha pad c cs hn ha, map_eq_ok_iff] at h
    obtain ⟨body, hb, rfl⟩ := h
    intro t ht
    simp only [List.mem_append] at ht
    rcases ht with ht | ht
    · exact alphaToks_plain _ (by simp) t ht
    · exact ih body hb t ht
  | op c cs hn ha ih =>
    intro ts h
    cases ho : operatorTok pad c with
    | none => rw [tb_op_none pad c cs hn ha ho] at h; cases h
    | some t' =>
      rw [tb_op_some pad c cs t' hn ha ho, map_eq_ok_iff] at h
      obtain ⟨body, hb, rfl⟩ := h
      intro t ht
      simp only [List.mem_append] at ht
      rcases ht with ht | ht
      · have := operatorTok_plain pad c t' ho t ht
        exact ⟨fun hf => absurd hf this.1, this.2⟩
      · exact ih body hb t ht

theorem sgn_lookup : dictGet Tokenizer_function_table "sgn".toList = .ok .sgn := by decide

/-- what `tokenize` returns satisfies the parser's invariant -/
theorem tokenize_good (pad : Bool) (s : List Char) (ts : List Tok) (h : tokenize pad s = .ok ts) : Good ts := by
  rw [tokenize_eq, tokBody_eq_tb, map_eq_ok_iff] at h
  obtain ⟨body, hb, rfl⟩ := h
  refine ⟨⟨body, ⟨.eof, []⟩, rfl, rfl⟩, ?_⟩
  intro t ht
  simp only [List.mem_append, List.mem_singleton] at ht
  rcases ht with ht | rfl
  · have := tb_plain pad s body hb t ht
    exact ⟨fun hf => by rw [this.1 hf]; exact sgn_lookup, fun _ => this.2⟩
  · exact ⟨fun hf => TT.noConfusion hf, fun hne => absurd rfl hne⟩

/-! ### end to end -/

/-- the translated `ExpressionParser().parse(text)`: `Tokenizer(exclude_padding=True).tokenize`, then `_parse` -/
def srcParseText (st : ParserState) (s : List Char) : Except PyErr Ex :=
  match Tokenizer_tokenize true s with
  | .error e => .error e
  | .ok toks => (ExpressionParser__parse st toks).map Prod.fst

/-- the model's outcome as the Python outcome -/
def outcomeOf (s : List Char) : ParseOut → Except PyErr Ex
  | .tree e => .ok e
  | .perr k => .error (errOf k)
  | .badChar c => .error (.ValueError (invalidTokenMsg c s))

/-- **the translated tokenizer + parser compute the model's `parseText`**, for every string -/
theorem parseText_agree (st : ParserState) (s : List Char) :
    srcParseText st s = outcomeOf s (parseText s) := by
  unfold srcParseText parseText
  rw [tokenize_agree]
  simp only [Bool.not_true]
  cases ht : tokenize false s with
  | error c => simp [outcomeOf]
  | ok ts =>
    have hg := tokenize_good false s ts ht
    simp only []
    rw [parse_agree st ts hg]
    cases parseToks ts <;> simp [outcomeOf]

end Mathy.SrcAgree
