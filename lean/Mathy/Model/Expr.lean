/-
Model of mathy_core/expressions.py : expression trees, evaluation, contexts (zippers).

No imports: everything here is executable and is driven by `Main.lean` in the
correspondence check.  Every node carries a `tag : Nat` which stands for Python object
identity (`0` = an object created by the operation under consideration; a non-zero tag
names an object of the input tree).  Tags never influence evaluation or printing.
-/
namespace Mathy

inductive Bop where
  | add | sub | mul | div | pow | eq
  deriving DecidableEq, Repr, Inhabited

inductive Uop where
  | neg | fact | sgn | abs
  deriving DecidableEq, Repr, Inhabited

/-- Expression trees.  Unary nodes created by the parser and by every rule hold their operand
on the right (`child_on_left = False`); the other variant only exists in `Model/Tree.lean`. -/
inductive Ex where
  | const (tag : Nat) (v : Rat)
  | var (tag : Nat) (x : Char)
  | un (tag : Nat) (op : Uop) (c : Ex)
  | bin (tag : Nat) (op : Bop) (l r : Ex)
  deriving DecidableEq, Repr, Inhabited

namespace Ex

def tag : Ex → Nat
  | const t _ => t | var t _ => t | un t _ _ => t | bin t _ _ _ => t

/-- `node.left` -/
def left? : Ex → Option Ex
  | bin _ _ l _ => some l | _ => none

/-- `node.right` (a unary node keeps its operand on the right) -/
def right? : Ex → Option Ex
  | bin _ _ _ r => some r | un _ _ c => some c | _ => none

def isConst : Ex → Bool | const .. => true | _ => false
def isVar : Ex → Bool | var .. => true | _ => false
def isBin : Ex → Bool | bin .. => true | _ => false
def isOp (o : Bop) : Ex → Bool | bin _ o' _ _ => o == o' | _ => false
def isUn (o : Uop) : Ex → Bool | un _ o' _ => o == o' | _ => false
def isLeaf : Ex → Bool | const .. => true | var .. => true | _ => false

def size : Ex → Nat
  | const .. => 1 | var .. => 1 | un _ _ c => c.size + 1 | bin _ _ l r => l.size + r.size + 1

/-- `clone()`: same shape and payloads, all objects new. -/
def clone : Ex → Ex
  | const _ v => const 0 v
  | var _ x => var 0 x
  | un _ o c => un 0 o c.clone
  | bin _ o l r => bin 0 o l.clone r.clone

/-- All tags, in-order (unary: node, then operand). -/
def tags : Ex → List Nat
  | const t _ => [t]
  | var t _ => [t]
  | un t _ c => t :: c.tags
  | bin t _ l r => l.tags ++ t :: r.tags

/-- Variables occurring, in-order with repetitions. -/
def vars : Ex → List Char
  | const .. => []
  | var _ x => [x]
  | un _ _ c => c.vars
  | bin _ _ l r => l.vars ++ r.vars

/-- Forget object identities. -/
def erase : Ex → Ex
  | const _ v => const 0 v
  | var _ x => var 0 x
  | un _ o c => un 0 o c.erase
  | bin _ o l r => bin 0 o l.erase r.erase

end Ex

/-! ## Evaluation over exact rationals -/

/-- Why an evaluation has no value.
`undef`  : division by zero, `0` to a negative power, factorial of a negative number, or a
           non-integer exponent (real powers are outside the model's semantic domain);
           Python yields NaN/inf or raises from `math.factorial` here.
`unequal`: the two sides of an equation differ (Python raises ValueError "did not hold").
Assignments are total here; a variable without a value is the business of `Model/PyEval.lean`
(property C05). -/
inductive Bad where
  | undef | unequal
  deriving DecidableEq, Repr, Inhabited

abbrev Res := Except Bad Rat
abbrev Env := Char → Rat

/-- Python evaluates both operands unconditionally: an exception raised anywhere wins over a
NaN produced anywhere, whatever the order of the operands. -/
def Bad.worse : Bad → Bad → Bad
  | .unequal, _ => .unequal
  | _, .unequal => .unequal
  | _, _ => .undef

instance : DecidableEq Res := fun a b =>
  match a, b with
  | .ok x, .ok y => if h : x = y then isTrue (by rw [h]) else isFalse (by intro h'; cases h'; exact h rfl)
  | .error x, .error y => if h : x = y then isTrue (by rw [h]) else isFalse (by intro h'; cases h'; exact h rfl)
  | .ok _, .error _ => isFalse (by intro h; cases h)
  | .error _, .ok _ => isFalse (by intro h; cases h)


def factNat : Nat → Nat
  | 0 => 1
  | n + 1 => (n + 1) * factNat n

/-- `int(value)`: truncation toward zero. -/
def truncInt (q : Rat) : Int := if 0 ≤ q then q.floor else - (-q).floor

/-- `x ^ y` on the model's domain: integer `y`; `0 ^ 0 = 1`; `0 ^ negative` undefined. -/
def evalPow (x y : Rat) : Res :=
  if y.den = 1 then
    if 0 ≤ y.num then .ok (x ^ y.num.toNat)
    else if x = 0 then .error .undef
    else .ok ((x ^ (-y.num).toNat)⁻¹)
  else .error .undef

def evalBop (o : Bop) (a b : Rat) : Res :=
  match o with
  | .add => .ok (a + b)
  | .sub => .ok (a - b)
  | .mul => .ok (a * b)
  | .div => if b = 0 then .error .undef else .ok (a / b)
  | .pow => evalPow a b
  | .eq => if a = b then .ok a else .error .unequal

def evalUop (o : Uop) (a : Rat) : Res :=
  match o with
  | .neg => .ok (-a)
  | .fact => let n := truncInt a; if n < 0 then .error .undef else .ok (factNat n.toNat : Nat)
  | .sgn => .ok (if a < 0 then -1 else if 0 < a then 1 else 0)
  | .abs => .ok (if a < 0 then -a else a)

/-- a unary operator applied to a possibly failed operand -/
def Res.un (o : Uop) : Res → Res
  | .ok a => evalUop o a
  | .error e => .error e

/-- a binary operator applied to two possibly failed operands -/
def Res.bin (o : Bop) : Res → Res → Res
  | .ok a, .ok b => evalBop o a b
  | .error e, .ok _ => .error e
  | .ok _, .error e => .error e
  | .error e1, .error e2 => .error (e1.worse e2)

def eval (env : Env) : Ex → Res
  | .const _ v => .ok v
  | .var _ x => .ok (env x)
  | .un _ o c => Res.un o (eval env c)
  | .bin _ o l r => Res.bin o (eval env l) (eval env r)

/-! ## Contexts -/

inductive Frame where
  /-- the hole is the left operand of `bin tag op □ r` -/
  | binL (tag : Nat) (op : Bop) (r : Ex)
  /-- the hole is the right operand of `bin tag op l □` -/
  | binR (tag : Nat) (op : Bop) (l : Ex)
  | un (tag : Nat) (op : Uop)
  deriving DecidableEq, Repr, Inhabited

/-- Innermost frame first. -/
abbrev Ctx := List Frame

def Frame.fill : Frame → Ex → Ex
  | .binL t o r, e => .bin t o e r
  | .binR t o l, e => .bin t o l e
  | .un t o, e => .un t o e

def plug : Ctx → Ex → Ex
  | [], e => e
  | f :: fs, e => plug fs (f.fill e)

def Frame.isOp (o : Bop) : Frame → Bool
  | .binL _ o' _ => o == o' | .binR _ o' _ => o == o' | .un .. => false

def Frame.isBin : Frame → Bool
  | .un .. => false | _ => true

/-- `node.parent` is an instance of the class of `o` -/
def parentIs (o : Bop) : Ctx → Bool
  | [] => false
  | f :: _ => f.isOp o

/-- `node.get_sibling()` -/
def sibling? : Ctx → Option Ex
  | .binL _ _ r :: _ => some r
  | .binR _ _ l :: _ => some l
  | _ => none

/-- All nodes with their contexts, in the order of `visit_inorder`. -/
def focusesAux : Ctx → Ex → List (Ctx × Ex)
  | k, e@(.const ..) => [(k, e)]
  | k, e@(.var ..) => [(k, e)]
  | k, e@(.un t o c) => (k, e) :: focusesAux (.un t o :: k) c
  | k, e@(.bin t o l r) => focusesAux (.binL t o r :: k) l ++ (k, e) :: focusesAux (.binR t o l :: k) r

def focuses (e : Ex) : List (Ctx × Ex) := focusesAux [] e

def focusAt (e : Ex) (i : Nat) : Option (Ctx × Ex) := (focuses e)[i]?

end Mathy
