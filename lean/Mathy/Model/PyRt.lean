/-
Run-time library of the Python→Lean translator (`harness/py2lean.py`).

The translator turns the *decision functions* of the repository (printer predicates, tokenizer
character classes, rule classifiers `get_type` / `can_apply_to`) into Lean definitions, literally,
statement by statement; the result is `Gen/PySrc.lean`, regenerated from `/repo` on every run.
Those definitions speak about Python object references; this file says what such a reference is
in the model: a position in an expression tree (a zipper location), or `None`.

What is assumed here (hand-written, checked by the correspondence run, not proved):
  * `node.left / node.right / node.parent` are the links of a well-formed tree (C07/C14/C15 are
    the properties about the links themselves);
  * a unary node keeps its operand on the right (`child_on_left = False`: what the parser and every
    rule construct), so `get_child()` is `right`;
  * `isinstance` follows the class hierarchy of expressions.py;
  * attribute access on `None` yields `None` (Python raises AttributeError; the generated
    functions only reach such an access behind an `isinstance` guard, and the correspondence run
    reports any exception raised by the real functions).
-/
import Mathy.Model.Expr
import Mathy.Model.Util
namespace Mathy.Py

/-- a live node object inside its tree -/
structure Loc where
  ctx : Ctx
  focus : Ex
  deriving DecidableEq, Repr, Inhabited

/-- a Python reference: `none` is `None` -/
abbrev Ref := Option Loc

inductive Cls where
  | MathExpression
  | UnaryExpression | NegateExpression | FactorialExpression
  | FunctionExpression | SgnExpression | AbsExpression
  | BinaryExpression | EqualExpression | AddExpression | SubtractExpression
  | MultiplyExpression | DivideExpression | PowerExpression
  | ConstantExpression | VariableExpression
  deriving DecidableEq, Repr, Inhabited

/-- `isinstance(obj, cls)` for a node object -/
def Cls.holds : Cls → Ex → Bool
  | .MathExpression, _ => true
  | .UnaryExpression, .un .. => true
  | .NegateExpression, .un _ .neg _ => true
  | .FactorialExpression, .un _ .fact _ => true
  | .FunctionExpression, .un _ .sgn _ => true
  | .FunctionExpression, .un _ .abs _ => true
  | .SgnExpression, .un _ .sgn _ => true
  | .AbsExpression, .un _ .abs _ => true
  | .BinaryExpression, .bin .. => true
  | .EqualExpression, .bin _ .eq _ _ => true
  | .AddExpression, .bin _ .add _ _ => true
  | .SubtractExpression, .bin _ .sub _ _ => true
  | .MultiplyExpression, .bin _ .mul _ _ => true
  | .DivideExpression, .bin _ .div _ _ => true
  | .PowerExpression, .bin _ .pow _ _ => true
  | .ConstantExpression, .const .. => true
  | .VariableExpression, .var .. => true
  | _, _ => false

/-- `isinstance(ref, (c1, c2, …))`; `isinstance(None, …)` is `False` -/
def isinstance (r : Ref) (cs : List Cls) : Bool :=
  match r with
  | none => false
  | some l => cs.any (·.holds l.focus)

/-- `ref.left` -/
def Ref.left : Ref → Ref
  | some ⟨k, .bin t o l r⟩ => some ⟨.binL t o r :: k, l⟩
  | _ => none

/-- `ref.right` (the operand of a unary node) -/
def Ref.right : Ref → Ref
  | some ⟨k, .bin t o l r⟩ => some ⟨.binR t o l :: k, r⟩
  | some ⟨k, .un t o c⟩ => some ⟨.un t o :: k, c⟩
  | _ => none

/-- `ref.parent` -/
def Ref.parent : Ref → Ref
  | some ⟨f :: k, e⟩ => some ⟨k, f.fill e⟩
  | _ => none

/-- `ref.get_child()` of a unary node -/
def Ref.get_child (r : Ref) : Ref := r.right

/-- `ref.get_sibling()` -/
def Ref.get_sibling : Ref → Ref
  | some ⟨.binL t o r :: k, e⟩ => some ⟨.binR t o e :: k, r⟩
  | some ⟨.binR t o l :: k, e⟩ => some ⟨.binL t o e :: k, l⟩
  | _ => none

/-- `parent.get_side(child)` where `child.parent is parent`: which link holds the child -/
def Ref.sideOf : Ref → String
  | some ⟨.binL .. :: _, _⟩ => "left"
  | some ⟨.binR .. :: _, _⟩ => "right"
  | some ⟨.un .. :: _, _⟩ => "right"
  | _ => ""

/-- `ref.get_root()` -/
def Ref.get_root : Ref → Ref
  | some ⟨k, e⟩ => some ⟨[], plug k e⟩
  | none => none

/-- `ref.get_root_side()`: the link of the root that leads to the node ("" for the root itself,
where Python raises) -/
def ctxRootSide : Ctx → String
  | [] => ""
  | [f] => match f with | .binL .. => "left" | .binR .. => "right" | .un .. => "right"
  | _ :: fs => ctxRootSide fs

def Ref.get_root_side : Ref → String
  | some ⟨k, _⟩ => ctxRootSide k
  | none => ""

/-- number of ancestors -/
def Ref.depth : Ref → Nat
  | some ⟨k, _⟩ => k.length
  | none => 0

/-- some node of the class in the sub-tree (`len(ref.find_type(cls)) > 0`) -/
def anyHolds (c : Cls) : Ex → Bool
  | e@(.const ..) => c.holds e
  | e@(.var ..) => c.holds e
  | e@(.un _ _ x) => c.holds e || anyHolds c x
  | e@(.bin _ _ l r) => c.holds e || anyHolds c l || anyHolds c r

def Ref.anyOfType (r : Ref) (c : Cls) : Bool :=
  match r with
  | some ⟨_, e⟩ => anyHolds c e
  | none => false

/-- `ref.identifier` of a variable -/
def Ref.identifier : Ref → Option Char
  | some ⟨_, .var _ x⟩ => some x
  | _ => none

/-- `ref.value` of a constant -/
def Ref.value : Ref → Option Rat
  | some ⟨_, .const _ v⟩ => some v
  | _ => none

/-- truth value of a reference (`if node.parent and …`): node classes define no `__bool__` -/
def Ref.truthy (r : Ref) : Bool := r.isSome

/-- `value < c` on an optional number (`None < c` raises TypeError in Python; the generated code
guards it with `is not None`) -/
def numLt (v : Option Rat) (c : Int) : Bool :=
  match v with
  | some q => decide (q < (c : Rat))
  | none => false

def numEq (v : Option Rat) (c : Int) : Bool :=
  match v with
  | some q => decide (q = (c : Rat))
  | none => false

/-! ### util.py as seen from the rule classifiers

`factor_add_terms_ex` is NOT translated: it is the hand-written model function `factorAddTermsEx`
(tied to the code by the correspondence runs of C01, C08 and C16); the classifier that calls it is
translated with it as an external.  `get_term_ex` IS translated; `Ref.get_term_ex` below is its
specification in terms of the model's `getTermEx` (`get_term_ex_agree`). -/

/-- specification of `get_term_ex(ref)`; `None` for `None` -/
def Ref.get_term_ex : Ref → Option TermEx
  | some ⟨k, e⟩ => getTermEx (parentIs .pow k) e
  | none => none

/-- `term.variable` (of a `TermEx` or `None`) -/
def termVar (t : Option TermEx) : Option Char := t.bind (·.var)
/-- `term.exponent` -/
def termExp (t : Option TermEx) : Option Rat := t.bind (·.exp)
/-- `term.coefficient` -/
def termCoef (t : Option TermEx) : Option Rat := t.bind (·.coef)

/-- `factor_add_terms_ex(l, r)`: a `FactorResult` or `False` -/
def pyFactorAddTermsEx (l r : Option TermEx) : Option FactorResult :=
  match l, r with
  | some l, some r => factorAddTermsEx l r
  | _, _ => none

def frBest (f : Option FactorResult) : Option Rat := f.map (·.best)
def frVar (f : Option FactorResult) : Option Char := f.bind (·.comVar)
def frExp (f : Option FactorResult) : Option Rat := f.bind (·.comExp)

/-- truth value of an optional number: `None` and `0` are falsy -/
def numTruthy (v : Option Rat) : Bool :=
  match v with
  | some q => decide (q ≠ 0)
  | none => false

/-- components of an optional `(name, term, term)` tuple after it was tested against `None` -/
def tupName (t : Option (String × Option TermEx × Option TermEx)) : String :=
  match t with | some x => x.1 | none => ""
def tupLeft (t : Option (String × Option TermEx × Option TermEx)) : Option TermEx :=
  match t with | some x => x.2.1 | none => none
def tupRight (t : Option (String × Option TermEx × Option TermEx)) : Option TermEx :=
  match t with | some x => x.2.2 | none => none

/-- `"a" <= c` on one-character strings -/
def chLe (a b : Char) : Bool := decide (a ≤ b)

end Mathy.Py
