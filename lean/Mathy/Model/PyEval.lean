/-
Model of `MathExpression.evaluate` with Python's numeric typing (property C05): `int` values are
exact at any magnitude, `float` values are idealised as exact rationals (no rounding — the
correspondence check compares doubles with a relative tolerance), NaN is a VALUE that propagates,
exceptions abort.
-/
import Mathy.Model.Expr
namespace Mathy

/-- typed expression trees: integer literals vs float literals -/
inductive PEx where
  | cint (z : Int)
  | cflt (q : Rat)
  | var (x : Char)
  | un (op : Uop) (c : PEx)
  | bin (op : Bop) (l r : PEx)
  deriving DecidableEq, Repr, Inhabited

inductive PyVal where
  | int (z : Int)
  | flt (q : Rat)
  | nan
  deriving DecidableEq, Repr, Inhabited

inductive PyExc where
  /-- "cannot evaluate statement with None variable" -/
  | unboundVariable
  /-- "Equation did not hold when evaluated" -/
  | equationDidNotHold
  /-- `math.factorial` of a negative number / of NaN -/
  | factorialDomain
  /-- outside the model: a real (non-integer) power, or `0 ** negative` (numpy gives inf) -/
  | unmodelled
  deriving DecidableEq, Repr, Inhabited

abbrev PyRes := Except PyExc PyVal

/-- a context entry: missing and `None` are both "no value" -/
abbrev PyEnv := Char → Option PyVal

def PyVal.toRat? : PyVal → Option Rat
  | .int z => some z
  | .flt q => some q
  | .nan => none

def PyVal.isInt : PyVal → Bool | .int _ => true | _ => false

/-- `+ - *` : int op int is int, anything with a float is float, NaN propagates -/
def pyArith (f : Rat → Rat → Rat) (g : Int → Int → Int) : PyVal → PyVal → PyVal
  | .int a, .int b => .int (g a b)
  | .nan, _ => .nan
  | _, .nan => .nan
  | a, b => match a.toRat?, b.toRat? with
    | some x, some y => .flt (f x y)
    | _, _ => .nan

/-- `DivideExpression.operate`: `two == 0` gives NaN, otherwise true division (always float) -/
def pyDiv (a b : PyVal) : PyVal :=
  match b.toRat? with
  | none => .nan                      -- nan == 0 is False, then x / nan = nan
  | some y =>
    if y = 0 then .nan
    else match a.toRat? with
      | some x => .flt (x / y)
      | none => .nan

/-- `PowerExpression.operate`: exact for int ** non-negative int, float otherwise -/
def pyPow : PyVal → PyVal → PyRes
  | .int a, .int b => if 0 ≤ b then .ok (.int (a ^ b.toNat))
      else if a = 0 then .error .unmodelled else .ok (.flt (((a : Rat) ^ (-b).toNat)⁻¹))
  | a, b => match a.toRat?, b.toRat? with
    | some x, some y =>
      if y.den = 1 then
        if 0 ≤ y.num then .ok (.flt (x ^ y.num.toNat))
        else if x = 0 then .error .unmodelled else .ok (.flt ((x ^ (-y.num).toNat)⁻¹))
      else .error .unmodelled
    | none, some y => if y = 0 then .ok (.flt 1) else .ok .nan   -- nan ** 0 = 1.0
    | _, none => .ok .nan  -- (1.0 ** nan is 1.0 in IEEE; not reachable from int/float literals: unmodelled nuance)

def pyNeg : PyVal → PyVal
  | .int z => .int (-z) | .flt q => .flt (-q) | .nan => .nan

/-- `math.factorial(int(value))` -/
def pyFact : PyVal → PyRes
  | .int z => if z < 0 then .error .factorialDomain else .ok (.int (factNat z.toNat))
  | .flt q => let n := truncInt q; if n < 0 then .error .factorialDomain else .ok (.int (factNat n.toNat))
  | .nan => .error .factorialDomain

/-- `SgnExpression.operate`: comparisons with NaN are false, so sgn(NaN) = 0 -/
def pySgn : PyVal → PyVal
  | .int z => .int (if z < 0 then -1 else if 0 < z then 1 else 0)
  | .flt q => .int (if q < 0 then -1 else if 0 < q then 1 else 0)
  | .nan => .int 0

def pyAbs : PyVal → PyVal
  | .int z => .int (if z < 0 then -z else z) | .flt q => .flt (if q < 0 then -q else q) | .nan => .nan

/-- Python `==` on numbers -/
def pyEq : PyVal → PyVal → Bool
  | .nan, _ => false
  | _, .nan => false
  | a, b => a.toRat? == b.toRat?

def pyBin (o : Bop) (a b : PyVal) : PyRes :=
  match o with
  | .add => .ok (pyArith (· + ·) (· + ·) a b)
  | .sub => .ok (pyArith (· - ·) (· - ·) a b)
  | .mul => .ok (pyArith (· * ·) (· * ·) a b)
  | .div => .ok (pyDiv a b)
  | .pow => pyPow a b
  | .eq => if pyEq a b then .ok a else .error .equationDidNotHold

def pyUn (o : Uop) (a : PyVal) : PyRes :=
  match o with
  | .neg => .ok (pyNeg a)
  | .fact => pyFact a
  | .sgn => .ok (pySgn a)
  | .abs => .ok (pyAbs a)

/-- left operand first; the first exception wins -/
def pyEval (env : PyEnv) : PEx → PyRes
  | .cint z => .ok (.int z)
  | .cflt q => .ok (.flt q)
  | .var x => match env x with | some v => .ok v | none => .error .unboundVariable
  | .un o c => match pyEval env c with
      | .ok a => pyUn o a
      | .error e => .error e
  | .bin o l r => match pyEval env l with
      | .ok a => (match pyEval env r with
          | .ok b => pyBin o a b
          | .error e => .error e)
      | .error e => .error e

end Mathy
