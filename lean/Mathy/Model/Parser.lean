/-
Model of mathy_core/parser.py: recursive descent over the token list.

State: the token list whose head is `current_token` (the Python parser pops the queue into
`current_token`; here the current token stays at the head).  Every function is indexed by fuel
(structural recursion); `parseFuel` gives enough for every input (`Proofs/ParserFuel.lean`).
-/
import Mathy.Model.Expr
import Mathy.Model.Tok
namespace Mathy

inductive PErr where
  | invalidExpression | outOfTokens | invalidSyntax | unexpectedBehavior | trailingTokens
  /-- `coerce_to_number` raised ValueError (malformed number such as `1.2.3` or `.`) -/
  | badNumber
  /-- the model ran out of fuel: never happens with `parseFuel` -/
  | fuel
  deriving DecidableEq, Repr, Inhabited

abbrev PRes := Except PErr (Ex × List Tok)

def headType : List Tok → TT
  | [] => .eof
  | t :: _ => t.type

/-! token sets (`_FIRST_*`, `_IS_*`) -/
def firstFunction (t : TT) : Bool := t == .function
def firstFactor (t : TT) : Bool := firstFunction t || t == .variable || t == .openParen || t == .factorial
def firstFactorPrefix (t : TT) : Bool := firstFactor t || t == .constant
def firstUnary (t : TT) : Bool := firstFactorPrefix t || t == .minus
def firstExp := firstUnary
def firstMult := firstUnary
def firstAdd := firstUnary
def isAddTok (t : TT) : Bool := t == .plus || t == .minus
def isMultTok (t : TT) : Bool := t == .multiply || t == .divide
def isExpTok (t : TT) : Bool := t == .exponent
def isEqualTok (t : TT) : Bool := t == .equal

/-- `self.next()` when the current token is the head: OutOfTokens past the end marker -/
def advance : List Tok → Except PErr (List Tok)
  | [] => .error .outOfTokens
  | t :: ts => if t.type == .eof then .error .outOfTokens else .ok ts

/-- `self.eat(type)` -/
def eat (ty : TT) (ts : List Tok) : Except PErr (List Tok) :=
  if headType ts != ty then .error .invalidSyntax else advance ts

/-! `coerce_to_number` -/

def digitVal (c : Char) : Nat := c.toNat - '0'.toNat

def digitsToNat (ds : List Char) : Nat := ds.foldl (fun acc c => acc * 10 + digitVal c) 0

/-- value of a maximal run of digits and dots; `none` = Python's `float()` raises ValueError -/
def parseNumber (s : List Char) : Option Rat :=
  let ip := s.takeWhile (· != '.')
  let rest := s.dropWhile (· != '.')
  match rest with
  | [] => if ip.isEmpty then none else some (digitsToNat ip : Nat)
  | _ :: fp =>
    if fp.contains '.' then none
    else if ip.isEmpty && fp.isEmpty then none
    else some ((digitsToNat ip : Nat) + mkRat (digitsToNat fp) (10 ^ fp.length))

mutual

/-- `parse_equal` loop: `exp` already parsed -/
def equalLoop : Nat → Ex → List Tok → PRes
  | 0, _, _ => .error .fuel
  | fuel + 1, exp, ts =>
    if isEqualTok (headType ts) then
      match eat .equal ts with
      | .error e => .error e
      | .ok ts =>
        if firstAdd (headType ts) then
          match parseAdd fuel ts with
          | .error e => .error e
          | .ok (right, ts) => equalLoop fuel (.bin 0 .eq exp right) ts
        else .error .unexpectedBehavior
    else .ok (exp, ts)

def parseEqual : Nat → List Tok → PRes
  | 0, _ => .error .fuel
  | fuel + 1, ts =>
    if !firstAdd (headType ts) then .error .invalidSyntax
    else match parseAdd fuel ts with
      | .error e => .error e
      | .ok (exp, ts) => equalLoop fuel exp ts

def addLoop : Nat → Ex → List Tok → PRes
  | 0, _, _ => .error .fuel
  | fuel + 1, exp, ts =>
    let op := headType ts
    if isAddTok op then
      match eat op ts with
      | .error e => .error e
      | .ok ts =>
        if firstMult (headType ts) then
          match parseMult fuel ts with
          | .error e => .error e
          | .ok (right, ts) =>
            addLoop fuel (.bin 0 (if op == .plus then .add else .sub) exp right) ts
        else .error .unexpectedBehavior
    else .ok (exp, ts)

def parseAdd : Nat → List Tok → PRes
  | 0, _ => .error .fuel
  | fuel + 1, ts =>
    if !firstMult (headType ts) then .error .invalidSyntax
    else match parseMult fuel ts with
      | .error e => .error e
      | .ok (exp, ts) => addLoop fuel exp ts

def multLoop : Nat → Ex → List Tok → PRes
  | 0, _, _ => .error .fuel
  | fuel + 1, exp, ts =>
    let op := headType ts
    if isMultTok op then
      match eat op ts with
      | .error e => .error e
      | .ok ts =>
        if firstExp (headType ts) then
          -- the right operand of `/` stops at the next operator; `*` takes the rest
          match (if op == .divide then parseExponent fuel ts else parseMult fuel ts) with
          | .error e => .error e
          | .ok (right, ts) =>
            multLoop fuel (.bin 0 (if op == .multiply then .mul else .div) exp right) ts
        else .error .invalidSyntax
    else .ok (exp, ts)

def parseMult : Nat → List Tok → PRes
  | 0, _ => .error .fuel
  | fuel + 1, ts =>
    if !firstExp (headType ts) then .error .invalidSyntax
    else match parseExponent fuel ts with
      | .error e => .error e
      | .ok (exp, ts) => multLoop fuel exp ts

def parseExponent : Nat → List Tok → PRes
  | 0, _ => .error .fuel
  | fuel + 1, ts =>
    if !firstUnary (headType ts) then .error .invalidSyntax
    else match parseUnary fuel ts with
      | .error e => .error e
      | .ok (exp, ts) =>
        if isExpTok (headType ts) then
          match eat .exponent ts with
          | .error e => .error e
          | .ok ts =>
            if !firstUnary (headType ts) then .error .invalidSyntax
            else match parseUnary fuel ts with
              | .error e => .error e
              | .ok (right, ts) => .ok (.bin 0 .pow exp right, ts)
        else .ok (exp, ts)

def parseUnary : Nat → List Tok → PRes
  | 0, _ => .error .fuel
  | fuel + 1, ts0 =>
    let neg0 := headType ts0 == .minus
    match (if neg0 then eat .minus ts0 else .ok ts0) with
    | .error e => .error e
    | .ok ts =>
      if !firstFactorPrefix (headType ts) then .error .invalidSyntax
      else
        -- optional leading constant (a preceding minus makes it a negative literal)
        let withConst : Except PErr (Option Ex × Bool × List Tok) :=
          match ts with
          | ⟨.constant, v⟩ :: _ =>
            match parseNumber v with
            | none => .error .badNumber
            | some q =>
              match eat .constant ts with
              | .error e => .error e
              | .ok ts' => .ok (some (.const 0 (if neg0 then -q else q)), false, ts')
          | _ => .ok (none, neg0, ts)
        match withConst with
        | .error e => .error e
        | .ok (c, negate, ts) =>
          let wrapNeg (e : Ex) : Ex := if negate then .un 0 .neg e else e
          if firstFactor (headType ts) then
            match c with
            | none =>
              match parseFactors fuel ts with
              | .error e => .error e
              | .ok (f, ts) => .ok (wrapNeg f, ts)
            | some ce =>
              if headType ts == .factorial then
                match eat .factorial ts with
                | .error e => .error e
                | .ok ts => .ok (wrapNeg (.un 0 .fact ce), ts)
              else
                match parseFactors fuel ts with
                | .error e => .error e
                | .ok (f, ts) => .ok (wrapNeg (.bin 0 .mul ce f), ts)
          else
            match c with
            | none => .error .invalidSyntax
            | some ce => .ok (wrapNeg ce, ts)

/-- the `while found` loop of `parse_factors`: `acc` = factors so far, most recent first -/
def factorsLoop : Nat → List Ex → List Tok → Except PErr (List Ex × List Tok)
  | 0, _, _ => .error .fuel
  | fuel + 1, acc, ts =>
    let step : Except PErr (Ex × List Tok) :=
      match ts with
      | ⟨.variable, v⟩ :: _ =>
        match eat .variable ts with
        | .error e => .error e
        | .ok ts' => .ok (.var 0 (v.headD 'x'), ts')
      | ⟨.function, _⟩ :: _ => parseFunction fuel ts
      | ⟨.openParen, _⟩ :: _ =>
        match eat .openParen ts with
        | .error e => .error e
        | .ok ts' =>
          match parseAdd fuel ts' with
          | .error e => .error e
          | .ok (e, ts'') =>
            match eat .closeParen ts'' with
            | .error e => .error e
            | .ok ts''' => .ok (e, ts''')
      | _ => .error .unexpectedBehavior
    match step with
    | .error e => .error e
    | .ok (f, ts) =>
      if firstFactor (headType ts) then factorsLoop fuel (f :: acc) ts
      else .ok (f :: acc, ts)

def parseFactors : Nat → List Tok → PRes
  | 0, _ => .error .fuel
  | fuel + 1, ts =>
    match factorsLoop fuel [] ts with
    | .error e => .error e
    | .ok (rev, ts) =>
      match rev with
      | [] => .error .invalidExpression
      | last :: before =>
        -- an exponent binds to the last factor only
        let powered : Except PErr (Ex × List Tok) :=
          if isExpTok (headType ts) then
            match eat .exponent ts with
            | .error e => .error e
            | .ok ts =>
              if !firstUnary (headType ts) then .error .invalidSyntax
              else match parseUnary fuel ts with
                | .error e => .error e
                | .ok (right, ts) => .ok (.bin 0 .pow last right, ts)
          else .ok (last, ts)
        match powered with
        | .error e => .error e
        | .ok (last', ts) =>
          match (last' :: before).reverse with
          | [] => .error .invalidExpression
          | f0 :: fs => .ok (fs.foldl (fun acc f => .bin 0 .mul acc f) f0, ts)

def parseFunction : Nat → List Tok → PRes
  | 0, _ => .error .fuel
  | fuel + 1, ts =>
    match eat (headType ts) ts with
    | .error e => .error e
    | .ok ts =>
      match eat .openParen ts with
      | .error e => .error e
      | .ok ts =>
        match parseAdd fuel ts with
        | .error e => .error e
        | .ok (e, ts) =>
          match eat .closeParen ts with
          | .error e => .error e
          | .ok ts => .ok (.un 0 .sgn e, ts)

end

/-- enough fuel for any token list -/
def parseFuel (ts : List Tok) : Nat := 8 * ts.length + 16

/-- `ExpressionParser._parse(tokens)` -/
def parseToks (ts : List Tok) : Except PErr Ex :=
  if headType ts == .eof then .error .invalidExpression
  else match parseEqual (parseFuel ts) ts with
    | .error e => .error e
    | .ok (e, rest) => if headType rest == .eof then .ok e else .error .trailingTokens

/-- outcome of `ExpressionParser().parse(text)` -/
inductive ParseOut where
  | tree (e : Ex)
  | perr (e : PErr)
  /-- `ValueError` from the tokenizer: unsupported character -/
  | badChar (c : Char)
  deriving DecidableEq, Repr, Inhabited

def parseText (s : List Char) : ParseOut :=
  match tokenize false s with
  | .error c => .badChar c
  | .ok ts =>
    match parseToks ts with
    | .ok e => .tree e
    | .error e => .perr e

end Mathy
