/-
Run-time library of the stateful translator for `mathy_core/parser.py`.

  * the parser object is the record `ParserState` (`tokens`, `current_token`); the attribute
    `_all_tokens` is only read to format exception messages, which are not modelled, so
    assignments to it are dropped by the translator;
  * expression objects are `Ex` trees with tag 0 (a new object), a variable name is its first
    letter (`pyVariable`: the tokenizer only produces one-letter Variable tokens, `Src_tokenize`);
  * `coerce_to_number` (Python's `int()` / `float()` on the token text) is an EXTERNAL: it is the
    hand-written `parseNumber` of Model/Parser.lean (exact rational value, `ValueError` for
    malformed text), validated by the correspondence run only;
  * `list.pop(0)`, `l[-1]`, `l[0]`, `l[-1] = x`, `d[k]` raise IndexError / KeyError as in Python.
-/
import Mathy.Model.PyRtTok
import Mathy.Model.Parser
namespace Mathy.Py

/-- `parser.ExpressionParser` (the attributes the parsing methods use) -/
structure ParserState where
  tokens : List Token
  current_token : Token
  deriving DecidableEq, Repr, Inhabited

/-- `l.pop(0)` -/
def listPop0 : List α → Except PyErr (α × List α)
  | [] => .error .IndexError
  | x :: xs => .ok (x, xs)

/-- `l[i]` (negative indices count from the end) -/
def listIdx (l : List α) (i : Int) : Except PyErr α :=
  let j : Int := if i < 0 then i + strLen l else i
  if j < 0 then .error .IndexError
  else match l[j.toNat]? with
    | some x => .ok x
    | none => .error .IndexError

/-- `l[i] = x` -/
def listSet (l : List α) (i : Int) (x : α) : Except PyErr (List α) :=
  let j : Int := if i < 0 then i + strLen l else i
  if j < 0 then .error .IndexError
  else if j.toNat < l.length then .ok (l.set j.toNat x) else .error .IndexError

/-- `d[k]` for a dict with string keys -/
def dictGet : List (List Char × β) → List Char → Except PyErr β
  | [], _ => .error .KeyError
  | (k, v) :: rest, key => if k == key then .ok v else dictGet rest key

/-- `k in d` -/
def pyDictHas : List (List Char × β) → List Char → Bool
  | [], _ => false
  | (k, _) :: rest, key => k == key || pyDictHas rest key

/-- `d[k] = v` -/
def pyDictSet (d : List (List Char × β)) (key : List Char) (v : β) : List (List Char × β) :=
  (key, v) :: d.filter (fun p => !(p.1 == key))

/-- the whole `ExpressionParser` object: the parsing state plus the two caches (`_tokens_cache`,
`_parse_cache`: dicts keyed by the input text).  Token lists and trees are VALUES here: the translation of
`tokenize` is only accepted while it hands out a copy (`[:]`) of the cached list. -/
structure ParserObj where
  core : ParserState
  tokens_cache : List (List Char × List Token)
  parse_cache : List (List Char × Ex)
  deriving Repr, Inhabited

/-- EXTERNAL `tokenizer.coerce_to_number` -/
def pyCoerceToNumber (s : List Char) : Except PyErr Rat :=
  match parseNumber s with
  | some q => .ok q
  | none => .error (.ValueError [])

/-- use of an `Optional[MathExpression]` local where an expression object is required -/
def optUse : Option Ex → Except PyErr Ex
  | some e => .ok e
  | none => .error .NoneUsed

/-- `VariableExpression(name)` -/
def pyVariable (s : List Char) : Ex := .var 0 (s.headD 'x')

end Mathy.Py
