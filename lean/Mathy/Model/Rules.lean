/-
Model of mathy_core/rules/*.py and mathy_core/rule.py.

Each rule is a pair `canApply : Ctx → Ex → Bool` / `apply : Ctx → Ex → Except RErr (Ctx × Ex)`
over a focused node (`Ctx` = everything above it, innermost frame first).  The result is the
new focus and its context; `plug` of the two is `change.result.get_root()`.
The case order inside every classifier follows the Python `get_type` line by line.
-/
import Mathy.Model.Util
namespace Mathy

inductive Rule where
  | associative
  | commutative (preferred : Bool)
  | constants
  | factorOut (constants : Bool)
  | distribute
  | inverse
  | restate
  | variableMultiply
  | balancedMove
  deriving DecidableEq, Repr, Inhabited

/-- Why `apply` did not return a tree. -/
inductive RErr where
  /-- `get_type` is `None`: Python's `apply_to` would hit its own assert -/
  | notApplicable
  /-- constant folding produced NaN/inf (division by zero, `0 ^ negative`) -/
  | nonFinite
  /-- constant folding of a non-integer power / factorial outside the model's domain -/
  | outOfDomain
  /-- an internal assertion of `apply_to` would fail -/
  | internal
  deriving DecidableEq, Repr, Inhabited

open Ex

/-! ### Associative swap -/

def asCan (k : Ctx) (n : Ex) : Bool :=
  (parentIs .add k && n.isOp .add) || (parentIs .mul k && n.isOp .mul)

/-- `node.rotate()` -/
def asApply (k : Ctx) (n : Ex) : Except RErr (Ctx × Ex) :=
  match k, n with
  | .binL pt po c :: k', .bin nt no a b => .ok (k', .bin nt no a (.bin pt po b c))
  | .binR pt po a :: k', .bin nt no b c => .ok (k', .bin nt no (.bin pt po a b) c)
  | _, _ => .error .internal

/-! ### Commutative swap -/

def csCan (preferred : Bool) (k : Ctx) (n : Ex) : Bool :=
  match n with
  | .bin _ .add _ _ => true
  | .bin _ .eq _ _ => true
  | .bin _ .mul l r =>
    if preferred = false then
      let unlessComplex : Bool :=
        if parentIs .mul k then
          match sibling? k with
          | some s => s.isOp .mul
          | none => false
        else false
      if l.isConst && r.isVar then unlessComplex
      else
        match r with
        | .bin _ .pow rl rr => if rl.isVar && rr.isConst then unlessComplex else true
        | _ => true
    else true
  | _ => false

def csApply (k : Ctx) (n : Ex) : Except RErr (Ctx × Ex) :=
  match n with
  | .bin t .eq a b => .ok (k, .bin t .eq b a)
  | .bin t o a b =>
    match a with
    | .bin at' ao a1 two =>
      if (ao == .add && o == .add) || (ao == .mul && o == .mul) then
        .ok (k, .bin t o (.bin at' ao a1 b) two)
      else .ok (k, .bin t o b a)
    | _ => .ok (k, .bin t o b a)
  | _ => .error .internal

/-! ### Constant arithmetic -/

inductive CAType where
  | simple | negationSimple | simpleVarMult | chainedRight | chainedRightLeft
  | chainedRightLeftLeft | chainedLeftLeftRight | chainedRightDeep
  deriving DecidableEq, Repr, Inhabited

/-- `ConstantExpression(node.evaluate())` -/
def foldConst (r : Res) (integralExp : Bool) : Except RErr Ex :=
  match r with
  | .ok v => .ok (.const 0 v)
  | .error _ => .error (if integralExp then .nonFinite else .outOfDomain)

/-- whether folding `a o b` stays inside the rational domain (only `^` can leave it) -/
def inDomain (o : Bop) (b : Rat) : Bool := !(o == .pow) || b.den == 1

/-- `get_type` and the matching arm of `apply_to` in one pass: the arrangement and the
replacement for the node.  The case order is that of the Python `get_type`. -/
def caStep (n : Ex) : Option (CAType × Except RErr Ex) :=
  match n with
  | .un _ .neg (.bin _ o (.const _ a) (.const _ b)) =>
      if o == .eq then none
      else some (.negationSimple, foldConst (Res.un .neg (evalBop o a b)) (inDomain o b))
  | .un .. => none
  | .bin _ o (.const _ a) (.const _ b) =>
      if o == .eq then none else some (.simple, foldConst (evalBop o a b) (inDomain o b))
  | .bin _ .mul (.bin _ .mul (.const _ a) x@(.var ..)) (.const _ b) =>
      some (.simpleVarMult, .ok (.bin 0 .mul (.const 0 (a * b)) x))
  | .bin _ o (.const _ a) (.bin _ o1 (.bin _ o2 (.const _ b) rlr) rr) =>
      if o == .add && o1 == .add && o2 == .add then
        some (.chainedRightDeep, .ok (.bin 0 .add (.bin 0 .add (.const 0 (a + b)) rlr) rr))
      else if o == .mul && o1 == .mul && o2 == .mul then
        some (.chainedRightDeep, .ok (.bin 0 .mul (.bin 0 .mul (.const 0 (a * b)) rlr) rr))
      else none
  | .bin _ o (.const _ a) (.bin _ o1 (.const _ b) rr) =>
      if o == .add && o1 == .add then some (.chainedRight, .ok (.bin 0 .add (.const 0 (a + b)) rr))
      else if o == .mul && o1 == .mul then some (.chainedRight, .ok (.bin 0 .mul (.const 0 (a * b)) rr))
      else none
  | .bin _ .mul (.bin _ .mul (.const _ a) lr) (.bin _ .mul (.const _ b) rr) =>
      some (.chainedRightLeft, .ok (.bin 0 .mul (.bin 0 .mul (.const 0 (a * b)) lr) rr))
  | .bin _ .mul (.bin _ .mul (.const _ a) lr) (.bin _ .mul (.bin _ .mul (.const _ b) rlr) rr) =>
      some (.chainedRightLeftLeft, .ok (.bin 0 .mul (.bin 0 .mul (.const 0 (a * b)) lr) (.bin 0 .mul rlr rr)))
  | .bin _ .mul (.bin _ .mul ll (.bin _ .mul (.const _ a) lrr)) (.bin _ .mul (.const _ b) rr) =>
      some (.chainedLeftLeftRight,
        .ok (.bin 0 .mul ll (.bin 0 .mul (.bin 0 .mul (.const 0 (a * b)) lrr) rr)))
  | _ => none

def caType (n : Ex) : Option CAType := (caStep n).map (·.1)

def caCan (n : Ex) : Bool := (caStep n).isSome

def caApply (k : Ctx) (n : Ex) : Except RErr (Ctx × Ex) :=
  match caStep n with
  | none => .error .notApplicable
  | some (_, .ok n') => .ok (k, n')
  | some (_, .error e) => .error e

/-! ### Distributive factor out -/

inductive DFType where
  | simple | chainedBoth | chainedLeft | chainedLeftRight | chainedRightLeft | chainedRight
  deriving DecidableEq, Repr, Inhabited

/-- the second field of a chained arrangement must be a term with a variable -/
def termWithVar (e : Ex) : Option TermEx :=
  match getTermEx false e with
  | some t => if t.var.isNone then none else some t
  | none => none

/-- `get_type`: arrangement, the two term nodes with their `TermEx`, and the way `apply_to`
re-attaches the kept children around the factored product (`wrap core`). -/
def dfStep (n : Ex) : Option (DFType × (Ex × TermEx) × (Ex × TermEx) × (Ex → Ex)) :=
  match n with
  | .bin _ .add l r =>
    match getTermEx false l, getTermEx false r with
    | none, none =>
      match l, r with
      | .bin _ .add ll lr, .bin _ .add rl rr =>
        match termWithVar rl with
        | none => none
        | some rt =>
          match termWithVar lr with
          | none => none
          | some lt => some (.chainedBoth, (lr, lt), (rl, rt),
              fun core => .bin 0 .add (.bin 0 .add ll core) rr)
      | _, _ => none
    | some lt, some rt => some (.simple, (l, lt), (r, rt), fun core => core)
    | some lt, none =>
      match r with
      | .bin _ .add rl rr =>
        match getTermEx false rl with
        | some rt => if rt.var.isNone then none
            else some (.chainedRight, (l, lt), (rl, rt), fun core => .bin 0 .add core rr)
        | none =>
          match rl with
          | .bin _ .add rll rlr =>
            match termWithVar rll with
            | some rt => some (.chainedRightLeft, (l, lt), (rll, rt),
                fun core => .bin 0 .add core (.bin 0 .add rlr rr))
            | none => none
          | _ => none
      | _ => none
    | none, some rt =>
      match l with
      | .bin _ .add ll lr =>
        match getTermEx false lr with
        | some lt => if lt.var.isNone then none
            else some (.chainedLeft, (lr, lt), (r, rt), fun core => .bin 0 .add ll core)
        | none =>
          match lr with
          | .bin _ .add lrl lrr =>
            match termWithVar lrr with
            | some lt => some (.chainedLeftRight, (lrr, lt), (r, rt),
                fun core => .bin 0 .add (.bin 0 .add ll lrl) core)
            | none => none
          | _ => none
      | _ => none
  | _ => none

def dfType (n : Ex) : Option DFType := (dfStep n).map (·.1)

/-- the test `can_apply_to` adds on top of `get_type` -/
def dfFactorOk (constants : Bool) (lt rt : TermEx) : Bool :=
  if constants = false && lt.var.isNone && rt.var.isNone then false
  else match factorAddTermsEx lt rt with
    | none => false
    | some f =>
      !(f.best == 1 && f.comVar.isNone && (f.comExp.isNone || f.comExp == some 0))

def dfCan (constants : Bool) (n : Ex) : Bool :=
  match dfStep n with
  | none => false
  | some (_, (_, lt), (_, rt), _) => dfFactorOk constants lt rt

/-- `(b + c) * a` built by `make_term` from the factor result -/
def dfCore (lt rt : TermEx) : Option Ex :=
  match factorAddTermsEx lt rt with
  | none => none
  | some f =>
    match makeTerm f.best f.comVar f.comExp,
          makeTerm f.left f.leftVar f.leftExp,
          makeTerm f.right f.rightVar f.rightExp with
    | some a, some b, some c => some (.bin 0 .mul (.bin 0 .add b c) a)
    | _, _, _ => none

def dfApply (k : Ctx) (n : Ex) : Except RErr (Ctx × Ex) :=
  match dfStep n with
  | none => .error .notApplicable
  | some (_, (_, lt), (_, rt), wrap) =>
    match dfCore lt rt with
    | some core => .ok (k, wrap core)
    | none => .error .internal

/-! ### Distributive multiply across -/

def dmCan (n : Ex) : Bool :=
  match n with
  | .bin _ .mul l r => l.isOp .add || r.isOp .add
  | _ => false

/-- the "natural order" test on `a` in `apply_to` (note Python's `and`/`or` precedence) -/
def dmAVar (a : Ex) : Bool :=
  let aExpVar :=
    (a.isOp .pow && (match a.right? with | some r => r.isVar | none => false))
    || (match a.left? with | some l => l.isVar | none => false)
  aExpVar || a.isVar

/-- the sum `apply_to` builds from clones of `a`, `b`, `c` -/
def dmBuild (a b c : Ex) : Ex :=
  let av := dmAVar a
  let ab : Ex := if av && b.isConst then .bin 0 .mul b.clone a.clone else .bin 0 .mul a.clone b.clone
  let ac : Ex := if av && c.isConst then .bin 0 .mul c.clone a.clone else .bin 0 .mul a.clone c.clone
  .bin 0 .add ab ac

def dmApply (k : Ctx) (n : Ex) : Except RErr (Ctx × Ex) :=
  match n with
  | .bin _ .mul (.bin _ .add b c) a => .ok (k, dmBuild a b c)
  | .bin _ .mul a (.bin _ .add b c) => .ok (k, dmBuild a b c)
  | _ => .error .notApplicable

/-! ### Multiplicative inverse -/

def miCan (n : Ex) : Bool := n.isOp .div

def miApply (k : Ctx) (n : Ex) : Except RErr (Ctx × Ex) :=
  match n with
  | .bin _ .div l (.un _ .neg c) =>
      .ok (k, .bin 0 .mul l.clone (.bin 0 .div (.const 0 (-1)) c.clone))
  | .bin _ .div l r =>
      .ok (k, .bin 0 .mul l.clone (.bin 0 .div (.const 0 1) r.clone))
  | _ => .error .notApplicable

/-! ### Restate subtraction -/

inductive RSType where
  | subtraction | subTermWithConst | subNegativeConst | subNegateVariable
  | addNegConst | addNegConstVar | addNegConstVarExp
  deriving DecidableEq, Repr, Inhabited

/-- the parent test of the subtraction arrangements -/
def rsParentOk (k : Ctx) : Bool := k.isEmpty || parentIs .eq k || parentIs .add k

/-- `get_type` and the matching arm of `apply_to` -/
def rsStep (k : Ctx) (n : Ex) : Option (RSType × Ex) :=
  match n with
  | .bin _ .sub l r =>
    if rsParentOk k then
      match r with
      | .un _ .neg c@(.var ..) => some (.subNegateVariable, .bin 0 .add l c.clone)
      | .const _ v =>
          if v < 0 then some (.subNegativeConst, .bin 0 .add l (.const 0 (v * -1)))
          else some (.subtraction, .bin 0 .add l (.un 0 .neg r))
      | .bin _ .mul (.const _ v) rr =>
          some (.subTermWithConst, .bin 0 .add l (.bin 0 .mul (.const 0 (v * -1)) rr.clone))
      | _ => some (.subtraction, .bin 0 .add l (.un 0 .neg r))
    else none
  | .bin _ .add l r =>
    match r with
    | .const _ v => if v < 0 then some (.addNegConst, .bin 0 .sub l (.const 0 (-v))) else none
    | .bin _ .mul (.const _ v) rr@(.var ..) =>
        if v < 0 then some (.addNegConstVar, .bin 0 .sub l (.bin 0 .mul (.const 0 (-v)) rr.clone))
        else none
    | .bin _ .mul (.const _ v) rr@(.bin _ .pow _ _) =>
        if v < 0 then some (.addNegConstVarExp, .bin 0 .sub l (.bin 0 .mul (.const 0 (-v)) rr.clone))
        else none
    | _ => none
  | _ => none

def rsType (k : Ctx) (n : Ex) : Option RSType := (rsStep k n).map (·.1)

def rsCan (k : Ctx) (n : Ex) : Bool := (rsStep k n).isSome

def rsApply (k : Ctx) (n : Ex) : Except RErr (Ctx × Ex) :=
  match rsStep k n with
  | some (_, n') => .ok (k, n')
  | none => .error .notApplicable

/-! ### Variable multiply -/

inductive VMType where
  | simple | chained | chainedLeftRight
  deriving DecidableEq, Repr, Inhabited

/-- result of the simple arrangement: `(a * b) * x^(..)`, `a * x^(..)` or `x^(..)` -/
def vmWrapSimple (coefs : List Rat) (power : Ex) : Ex :=
  match coefs with
  | [a, b] => .bin 0 .mul (.bin 0 .mul (.const 0 a) (.const 0 b)) power
  | [a] => .bin 0 .mul (.const 0 a) power
  | _ => power

/-- result of the chained arrangement `t * (t' * keep)` -/
def vmWrapChained (keep : Ex) (coefs : List Rat) (power : Ex) : Ex :=
  let res : Ex := .bin 0 .mul power keep
  match coefs with
  | [a, b] => .bin 0 .mul (.const 0 a) (.bin 0 .mul (.const 0 b) res)
  | [a] => .bin 0 .mul (.const 0 a) res
  | _ => res

/-- result of the chained-left-right arrangement `(keep * t) * t'` -/
def vmWrapCLR (keep : Ex) (coefs : List Rat) (power : Ex) : Ex :=
  match coefs with
  | [a, b] => .bin 0 .mul keep (.bin 0 .mul (.const 0 b) (.bin 0 .mul (.const 0 a) power))
  | [a] => .bin 0 .mul keep (.bin 0 .mul (.const 0 a) power)
  | _ => .bin 0 .mul keep power

/-- `get_type`: arrangement, the two term nodes with their `TermEx`, and how `apply_to`
re-attaches the kept child around the combined power (`wrap coefficients power`). -/
def vmStep (n : Ex) : Option (VMType × (Ex × TermEx) × (Ex × TermEx) × (List Rat → Ex → Ex)) :=
  match n with
  | .bin _ .mul l r =>
    let lt := getTermEx false l
    let rt := getTermEx false r
    let clr : Option (VMType × (Ex × TermEx) × (Ex × TermEx) × (List Rat → Ex → Ex)) :=
      match l, r with
      | .bin _ .mul keep lr, .bin _ .mul _ _ =>
        match getTermEx false lr, rt with
        | some clt, some rt =>
          if clt.var == rt.var then some (.chainedLeftRight, (lr, clt), (r, rt), vmWrapCLR keep)
          else none
        | _, _ => none
      | _, _ => none
    match clr with
    | some x => some x
    | none =>
      match lt with
      | none => none
      | some lt =>
        if lt.var.isNone then none else
        match rt with
        | some rt =>
          if rt.var.isNone then none
          else if lt.var != rt.var then none
          else some (.simple, (l, lt), (r, rt), vmWrapSimple)
        | none =>
          match r with
          | .bin _ .mul rl keep =>
            match getTermEx false rl with
            | none => none
            | some rt =>
              if rt.var.isNone then none
              else if lt.var != rt.var then none
              else some (.chained, (l, lt), (rl, rt), vmWrapChained keep)
          | _ => none
  | _ => none

def vmType (n : Ex) : Option VMType := (vmStep n).map (·.1)

def vmCan (n : Ex) : Bool := (vmStep n).isSome

/-- the coefficient term of `apply_to`: none / one constant / a product of two constants -/
def vmCoefs (lt rt : TermEx) : List Rat :=
  match lt.coef, rt.coef with
  | none, none => []
  | some a, some b => [a, b]
  | some a, none => [a]
  | none, some b => [b]

def vmApply (k : Ctx) (n : Ex) : Except RErr (Ctx × Ex) :=
  match vmStep n with
  | none => .error .notApplicable
  | some (_, (_, lt), (_, rt), wrap) =>
    match lt.var with
    | none => .error .internal
    | some x =>
      let power : Ex := .bin 0 .pow (.var 0 x)
        (.bin 0 .add (.const 0 (lt.exp.getD 1)) (.const 0 (rt.exp.getD 1)))
      .ok (k, wrap (vmCoefs lt rt) power)

/-! ### Balanced move -/

inductive BMType where
  | addition | constOfMultiply
  deriving DecidableEq, Repr, Inhabited

/-- any `AddExpression` in the subtree (`find_type(AddExpression)`) -/
def hasAdd : Ex → Bool
  | .const .. => false
  | .var .. => false
  | .un _ _ c => hasAdd c
  | .bin _ o l r => o == .add || hasAdd l || hasAdd r

/-- Split a non-empty context into the frames below the root and the root frame. -/
def splitRoot : Ctx → Option (Ctx × Frame)
  | [] => none
  | [f] => some ([], f)
  | f :: fs => match splitRoot fs with
    | some (inner, root) => some (f :: inner, root)
    | none => none

/-- all frames are additions -/
def allAdd : Ctx → Bool
  | [] => true
  | f :: fs => f.isOp .add && allAdd fs

def bmType (k : Ctx) (n : Ex) : Option BMType :=
  match splitRoot k with
  | none => none  -- node is the root
  | some (inner, rootF) =>
    -- root must be an equation; the node must not be a direct child of an equation
    if !(rootF.isOp .eq) then none
    else if parentIs .eq k then none
    else
      -- neither side of the root may itself be an equation
      let side := plug inner n
      let other := match rootF with | .binL _ _ r => r | .binR _ _ l => l | .un .. => side
      if side.isOp .eq || other.isOp .eq then none
      else if parentIs .mul k && n.isConst then
        match n with
        | .const _ v =>
          if v = 0 then none
          else if hasAdd side then none
          else some .constOfMultiply
        | _ => none
      else if parentIs .add k then
        if !(allAdd inner) then none
        else if n.isConst || (getTermEx false n).isSome then some .addition
        else none
      else none

def bmCan (k : Ctx) (n : Ex) : Bool := (bmType k n).isSome

/-- remove the focused addend: its sibling takes the place of the parent addition -/
def removeAddend : Ctx → Option (Ctx × Ex)
  | .binL _ _ r :: k => some (k, r)
  | .binR _ _ l :: k => some (k, l)
  | _ => none

def bmApply (k : Ctx) (n : Ex) : Except RErr (Ctx × Ex) :=
  match bmType k n, splitRoot k with
  | some ty, some (inner, rootF) =>
    let c := n.clone
    match ty with
    | .constOfMultiply =>
      let side := (plug inner n).clone
      match rootF with
      | .binL _ o r => .ok ([], .bin 0 o (.bin 0 .div side c) (.bin 0 .div r.clone c))
      | .binR _ o l => .ok ([], .bin 0 o (.bin 0 .div l.clone c) (.bin 0 .div side c))
      | .un .. => .error .internal
    | .addition =>
      match removeAddend inner with
      | none => .error .internal
      | some (inner', sib) =>
        let side := (plug inner' sib).clone
        match rootF with
        | .binL _ o r => .ok ([], .bin 0 o side (.bin 0 .sub r.clone c))
        | .binR _ o l => .ok ([], .bin 0 o (.bin 0 .sub l.clone c) side)
        | .un .. => .error .internal
  | _, _ => .error .notApplicable

/-! ### Dispatch -/

def canApply (r : Rule) (k : Ctx) (n : Ex) : Bool :=
  match r with
  | .associative => asCan k n
  | .commutative p => csCan p k n
  | .constants => caCan n
  | .factorOut c => dfCan c n
  | .distribute => dmCan n
  | .inverse => miCan n
  | .restate => rsCan k n
  | .variableMultiply => vmCan n
  | .balancedMove => bmCan k n

/-- `rule.apply_to(node)` -/
def applyRule (r : Rule) (k : Ctx) (n : Ex) : Except RErr (Ctx × Ex) :=
  match r with
  | .associative => asApply k n
  | .commutative _ => csApply k n
  | .constants => caApply k n
  | .factorOut _ => dfApply k n
  | .distribute => dmApply k n
  | .inverse => miApply k n
  | .restate => rsApply k n
  | .variableMultiply => vmApply k n
  | .balancedMove => bmApply k n

/-- the whole tree after applying `r` at the `i`-th node (in-order) of `t`:
`rule.apply_to(node).result.get_root()` -/
def applyAt (r : Rule) (t : Ex) (i : Nat) : Except RErr Ex :=
  match focusAt t i with
  | none => .error .internal
  | some (k, n) =>
    match applyRule r k n with
    | .ok (k', n') => .ok (plug k' n')
    | .error e => .error e

/-- `rule.find_nodes(t)`: in-order indices at which the rule reports applicable -/
def findNodes (r : Rule) (t : Ex) : List Nat :=
  ((focuses t).zipIdx.filter (fun p => canApply r p.1.1 p.1.2)).map (·.2)

/-- `rule.find_node(t)` -/
def findNode (r : Rule) (t : Ex) : Option Nat := (findNodes r t).head?

end Mathy
