/-
Run-time library of the STATEFUL translator (`harness/py2lean_st.py`): what a Python `str`,
`int`, `list`, a raised exception, and the two record classes of tokenizer.py are in the model.

  * `str`            : `List Char`   (code points; indexing and slicing by code point, as Python)
  * `int`            : `Int`
  * `List[Token]`    : `List Token`
  * an exception     : `Except PyErr`, `ValueError` carries its message text;
                       `IndexError` is what `s[i]` raises outside the string
  * `OutOfFuel` is NOT a Python exception: a translated `while` loop is a function recursive on a
    fuel argument, and this is its value when the fuel runs out.  The agreement theorems show
    that it never is the result with the fuel the translator supplies (so: the real loop
    terminates within that many iterations).
  * objects of the classes `Token` / `TokenContext` are records; a method that mutates its
    `context` argument becomes a function that returns the new record next to its result.

No imports: this file is part of the executable model.
-/
namespace Mathy.Py

inductive PyErr where
  | ValueError (msg : List Char)
  | IndexError
  | OutOfFuel
  -- parser.py: the ParserException subclasses (their message texts are not modelled), KeyError of a
  -- dict lookup, and `NoneUsed`: a local that is `None` was used where an expression object is
  -- required (Python would build a tree with a missing child, which `Ex` cannot represent; the
  -- agreement theorems show it does not occur)
  | InvalidExpression | OutOfTokens | InvalidSyntax | UnexpectedBehavior | TrailingTokens
  | KeyError
  | NoneUsed
  deriving DecidableEq, Repr, Inhabited

/-- `tokenizer.Token` -/
structure Token where
  value : List Char
  type : Nat
  deriving DecidableEq, Repr, Inhabited

/-- `tokenizer.TokenContext` -/
structure TokenContext where
  tokens : List Token
  index : Int
  buffer : List Char
  chunk : List Char
  deriving DecidableEq, Repr, Inhabited

/-- `len(s)` -/
def strLen (s : List α) : Int := Int.ofNat s.length

/-- `s[i]` (negative indices count from the end) -/
def strIdx (s : List Char) (i : Int) : Except PyErr Char :=
  let j : Int := if i < 0 then i + strLen s else i
  if j < 0 then .error .IndexError
  else match s[j.toNat]? with
    | some c => .ok c
    | none => .error .IndexError

/-- `s[i:]` (negative indices count from the end; out-of-range is clamped, never an error) -/
def strFrom (s : List α) (i : Int) : List α :=
  let j : Int := if i < 0 then i + strLen s else i
  if j < 0 then s else s.drop j.toNat

/-- `bool(s)` for a string or list -/
def strTruthy (s : List α) : Bool := !s.isEmpty

/-- `bool(i)` for an int -/
def intTruthy (i : Int) : Bool := i != 0

end Mathy.Py
