/-
Executable heap operations used by the re-attachment theorems (Proofs/HeapAttach.lean) and by the
driver: `set_side` and the functional counterpart "replace the sub-tree at a path".
-/
import Mathy.Model.Tree
namespace Mathy
open BT

/-- the subtree at a path replaced -/
def BT.replaceAt : BT → Path → BT → BT
  | _, [], s => s
  | .node i l r, .L :: p, s => .node i (l.replaceAt p s) r
  | .node i l r, .R :: p, s => .node i l (r.replaceAt p s)
  | .nil, _ :: _, _ => .nil

/-- `self.set_side(child, side)` -/
def Heap.setSide (h : Heap) (self : Nat) (child : Option Nat) : Dir → Heap
  | .L => h.setLeft self child
  | .R => h.setRight self child

end Mathy
