/-
Model of `__str__` of every expression class (mathy_core/expressions.py) at CHARACTER level:
the exact string `str(tree)` (colouring off).  `Print.lean` models the tokens of that string; the
theorem `C04_str_tokens` (Props/C04Str.lean) shows that the tokenizer model maps the one to the other,
which lifts the print/parse theorems from token lists to text.

Python, for reference:
  Binary      f"{left} {name} {right}", in "(…)" when `self_parens()`
  Multiply    f"{left}{right}" for const*var and const*var^k
  Power       "{}{}{}".format(left, "^", right) with "(…)" around a negate/power/compact-product base
              and around a power exponent
  Negate      "-{}" with "(…)" when `_negate_needs_parens`
  Factorial   "{}!"
  Function    "{name}({child})"
  Constant    `name` (a negative value prints its own minus sign)
  Variable    the identifier
-/
import Mathy.Model.Print
namespace Mathy

def parensC (b : Bool) (s : List Char) : List Char :=
  if b then '(' :: s ++ [')'] else s

def opChar : Bop → Char
  | .add => '+' | .sub => '-' | .mul => '*' | .div => '/' | .pow => '^' | .eq => '='

/-- `str(ConstantExpression(v))` -/
def constChars (nt : Rat → List Char) (v : Rat) : List Char :=
  if v < 0 then '-' :: nt (-v) else nt v

/-- `str(e)` where `parent` is the binary parent (kind and side) if there is one -/
def strChars (nt : Rat → List Char) (parent : Option (Bop × Side)) : Ex → List Char
  | .const _ v => constChars nt v
  | .var _ x => [x]
  | .un _ .neg c => '-' :: parensC (negateNeedsParens c) (strChars nt none c)
  | .un _ .fact c => strChars nt none c ++ ['!']
  | .un _ .sgn c => "sgn".toList ++ parensC true (strChars nt none c)
  | .un _ .abs c => "abs".toList ++ parensC true (strChars nt none c)
  | e@(.bin _ o l r) =>
    match o with
    | .pow =>
      parensC (powerBaseNeedsParens l) (strChars nt (some (.pow, .left)) l)
        ++ '^' :: parensC (r.isOp .pow) (strChars nt (some (.pow, .right)) r)
    | _ =>
      if isCompactProduct e then
        strChars nt (some (o, .left)) l ++ strChars nt (some (o, .right)) r
      else
        parensC (selfParens o parent)
          (strChars nt (some (o, .left)) l ++ ' ' :: opChar o :: ' ' :: strChars nt (some (o, .right)) r)

end Mathy
