/-
Model of `__str__` of every expression class (mathy_core/expressions.py), at token level:
the tokens the real tokenizer yields for `str(tree)`.  Number formatting is a parameter
(`nt : Rat → List Char`, applied to non-negative values): Python prints `int(value)` for integral
values and numpy's shortest positional repr otherwise.
-/
import Mathy.Model.Parser
namespace Mathy

inductive Side where
  | left | right
  deriving DecidableEq, Repr, Inhabited

/-- `BinaryExpression.get_priority` -/
def Bop.priority : Bop → Int
  | .eq => -1 | .add => 0 | .sub => 0 | .mul => 1 | .div => 1 | .pow => 2

def Bop.isAddSub : Bop → Bool | .add => true | .sub => true | _ => false
def Bop.isMulDiv : Bop → Bool | .mul => true | .div => true | _ => false

/-- `BinaryExpression.self_parens` for a node of kind `o` under `parent` -/
def selfParens (o : Bop) (parent : Option (Bop × Side)) : Bool :=
  match parent with
  | none => false
  | some (p, side) =>
    if p.priority > o.priority then true
    else if p.priority == o.priority then
      (side == .right && o.isAddSub && p.isAddSub)
      || (side == .left && o.isMulDiv && p.isMulDiv)
      || (side == .right && o.isMulDiv && p == .div)
    else false

/-- `_is_compact_product`: prints without an operator (`4x`, `4x^2`) -/
def isCompactProduct : Ex → Bool
  | .bin _ .mul (.const ..) (.var ..) => true
  | .bin _ .mul (.const ..) (.bin _ .pow (.var ..) _) => true
  | _ => false

/-- `_power_base_needs_parens` -/
def powerBaseNeedsParens (b : Ex) : Bool :=
  b.isUn .neg || b.isOp .pow || isCompactProduct b

/-- `_negate_needs_parens` -/
def negateNeedsParens : Ex → Bool
  | .var .. => false
  | .un _ .sgn _ => false
  | .un _ .abs _ => false
  | .const _ v => v < 0
  | e@(.bin _ .mul (.const _ c) _) => if isCompactProduct e then c < 0 else true
  | .bin _ .pow b _ => b.isConst || b.isUn .fact
  | _ => true

def tk (t : TT) (s : String) : Tok := ⟨t, s.toList⟩

def opTok : Bop → Tok
  | .add => tk .plus "+" | .sub => tk .minus "-" | .mul => tk .multiply "*"
  | .div => tk .divide "/" | .pow => tk .exponent "^" | .eq => tk .equal "="

def parens (b : Bool) (ts : List Tok) : List Tok :=
  if b then tk .openParen "(" :: ts ++ [tk .closeParen ")"] else ts

/-- `str(ConstantExpression(v))` tokenized: a negative value prints with a leading minus -/
def constToks (nt : Rat → List Char) (v : Rat) : List Tok :=
  if v < 0 then [tk .minus "-", ⟨.constant, nt (-v)⟩] else [⟨.constant, nt v⟩]

/-- tokens of `str(e)` where `parent` is the binary parent (kind and side) if there is one -/
def printToks (nt : Rat → List Char) (parent : Option (Bop × Side)) : Ex → List Tok
  | .const _ v => constToks nt v
  | .var _ x => [⟨.variable, [x]⟩]
  | .un _ .neg c => tk .minus "-" :: parens (negateNeedsParens c) (printToks nt none c)
  | .un _ .fact c => printToks nt none c ++ [tk .factorial "!"]
  | .un _ .sgn c => tk .function "sgn" :: parens true (printToks nt none c)
  | .un _ .abs c => tk .function "abs" :: parens true (printToks nt none c)
  | e@(.bin _ o l r) =>
    match o with
    | .pow =>
      parens (powerBaseNeedsParens l) (printToks nt (some (.pow, .left)) l)
        ++ tk .exponent "^" :: parens (r.isOp .pow) (printToks nt (some (.pow, .right)) r)
    | _ =>
      if isCompactProduct e then
        printToks nt (some (o, .left)) l ++ printToks nt (some (o, .right)) r
      else
        parens (selfParens o parent)
          (printToks nt (some (o, .left)) l ++ opTok o :: printToks nt (some (o, .right)) r)

/-- tokens of `str(root)` followed by the end marker -/
def printRoot (nt : Rat → List Char) (e : Ex) : List Tok := printToks nt none e ++ [⟨.eof, []⟩]

/-! a concrete number formatter for finite decimals (used by the driver) -/

def natDigits (n : Nat) : List Char := (toString n).toList

/-- smallest `k ≤ fuel` with `den ∣ 10^k` -/
def decimalPlaces (den : Nat) : Nat → Nat → Option Nat
  | 0, k => if 10 ^ k % den == 0 then some k else none
  | fuel + 1, k => if 10 ^ k % den == 0 then some k else decimalPlaces den fuel (k + 1)

/-- positional decimal of a non-negative rational with a terminating expansion; other values
(which no Python float or int can hold exactly) are shown as `num/den` and do not re-parse. -/
def showRat (q : Rat) : List Char :=
  if q.den == 1 then natDigits q.num.toNat
  else match decimalPlaces q.den 400 0 with
    | none => natDigits q.num.toNat ++ ['/'] ++ natDigits q.den
    | some k =>
      let scaled := q.num.toNat * (10 ^ k / q.den)
      let ip := scaled / 10 ^ k
      let fp := scaled % 10 ^ k
      let fd := natDigits fp
      natDigits ip ++ ['.'] ++ List.replicate (k - fd.length) '0' ++ fd

end Mathy
