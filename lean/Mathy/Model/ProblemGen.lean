/-
Model of the problem GENERATORS of mathy_core/problems.py as functions of an explicit stream of
random draws (pretty-number mode, the default).

Every use of the `random` module is one or more draws `randbelow(n)` from the stream:
  randint(a, b)      = a + randbelow(b - a + 1)
  randrange(100)     = randbelow(100)                      (`rand_bool`)
  sample(pool, k)    = k times: j = randbelow(len(rest)); take rest[j], remove it
  shuffle(x)         = for i = len-1 … 1: j = randbelow(i + 1); swap x[i], x[j]
  uniform(0, 1)      = randbelow(2^53) / 2^53               (`split_in_two_random`)
The correspondence run (harness/props_problems.py) replaces those five functions of the `random`
module by recording implementations with exactly these draw patterns, runs the REAL generator,
feeds the recorded draws to this model and compares the text (token by token) and the complexity.
The theorems (Props/C17Gen.lean) hold for EVERY stream: a draw is reduced modulo its bound, an
exhausted stream yields 0.
-/
import Mathy.Model.Problems
import Mathy.Model.Print
namespace Mathy
namespace Gen

abbrev Stream := List Nat

/-- `randbelow(n)` -/
def draw (n : Nat) (s : Stream) : Nat × Stream :=
  match s with
  | [] => (0, [])
  | d :: ds => (if n = 0 then 0 else d % n, ds)

/-- `random.randint(a, b)`; `b < a` is Python's ValueError (callers check) -/
def randint (a b : Nat) (s : Stream) : Nat × Stream :=
  let (d, s) := draw (b - a + 1) s
  (a + d, s)

/-- `rand_bool(percent_chance)` -/
def randBool (pct : Rat) (s : Stream) : Bool × Stream :=
  let (d, s) := draw 100 s
  (decide ((d : Rat) < pct), s)

/-- `rand_number()` in pretty mode: an integer between 1 and 12 -/
def randNumber (s : Stream) : PNum × Stream :=
  let (n, s) := randint 1 12 s
  (⟨false, natDigits n⟩, s)

/-- `maybe_number(percent_chance)` (default 80) -/
def maybeNumber (pct : Rat) (s : Stream) : Option PNum × Stream :=
  let (b, s) := randBool pct s
  if b then
    let (n, s) := randNumber s
    (some n, s)
  else (none, s)

/-- `maybe_power(percent_chance)`: `^2` … `^4` -/
def maybePower (pct : Rat) (s : Stream) : Option (List Char) × Stream :=
  let (b, s) := randBool pct s
  if b then
    let (n, s) := randint 2 4 s
    (some (natDigits n), s)
  else (none, s)

/-- `variables` -/
def variablesPool : List Char := "abcdfghjklmnopqrstuvwxyz".toList

/-- `rand_var()` -/
def randVar (s : Stream) : Char × Stream :=
  let (i, s) := randint 0 (variablesPool.length - 1) s
  (variablesPool.getD i 'a', s)

/-- `random.sample(pool, k)` -/
def sample : Nat → List Char → Stream → List Char × Stream
  | 0, _, s => ([], s)
  | k + 1, pool, s =>
    let (j, s) := draw pool.length s
    let (rest, s) := sample k (pool.eraseIdx j) s
    (pool.getD j 'a' :: rest, s)

/-- swap positions `i` and `j` -/
def swapAt (l : List Char) (i j : Nat) : List Char :=
  (l.set i (l.getD j 'a')).set j (l.getD i 'a')

/-- `random.shuffle(x)`: `i` counts down from `len - 1` to 1 -/
def shuffleFrom : Nat → List Char → Stream → List Char × Stream
  | 0, l, s => (l, s)
  | i + 1, l, s =>
    let (j, s) := draw (i + 2) s
    shuffleFrom i (swapAt l (i + 1) j) s

def shuffle (l : List Char) (s : Stream) : List Char × Stream := shuffleFrom (l.length - 1) l s

/-- `get_rand_vars(num_vars, exclude_vars)`; `none` = ValueError -/
def getRandVarsS (n : Nat) (exclude : List Char) (s : Stream) : Option (List Char) × Stream :=
  let available := variablesPool.filter (fun v => !exclude.contains v)
  if n > 25 then (none, s)
  else if n > available.length then (none, s)
  else
    let (out, s) := sample n available s
    let (out, s) := shuffle out s
    (some out, s)

/-- `split_in_two_random(value)`: (lower, higher) -/
def splitS (value : Nat) (s : Stream) : (Nat × Nat) × Stream :=
  let (k, s) := draw (2 ^ 53) s
  (splitInTwo value ((k : Rat) / (2 ^ 53 : Nat)), s)

/-- `f"{maybe_number()}{v}{maybe_power(pc)}"` -/
def noiseTerm (pc : Rat) (v : Char) (s : Stream) : PItem × Stream :=
  let (c, s) := maybeNumber 80 s
  let (p, s) := maybePower pc s
  (.term c v p, s)

/-- `for i in range(n): current = vars.pop(); out.append(noise term)`: consumes the variables from
the END of the list; returns the terms and the variables left -/
def noiseTerms (pc : Rat) : Nat → List Char → Stream → (List PItem × List Char) × Stream
  | 0, vars, s => (([], vars), s)
  | n + 1, vars, s =>
    match vars.getLast? with
    | none => (([], vars), s)      -- pop from an empty list: IndexError (never: enough variables were drawn)
    | some v =>
      let (t, s) := noiseTerm pc v s
      let ((ts, left), s) := noiseTerms pc n vars.dropLast s
      ((t :: ts, left), s)

/-- items joined by ` + `, with an optional parenthesised group -/
def sumProblem (items : List PItem) (group : Option (Nat × Nat)) : Option FlatProblem :=
  match items with
  | [] => none
  | it :: rest => some ⟨it, rest.map fun x => (POpr.plus, x), group⟩

/-- second half of the two haystack generators: split the noise terms, emit left terms, the focus
chunk and the right terms, join by ` + `; the group (if any) surrounds the focus chunk -/
def haystackFinish (pc : Rat) (paren : Bool) (focus : List PItem) (numSplit : Nat) (noiseVars : List Char)
    (s : Stream) : Option (FlatProblem × Nat × Nat) :=
  let ((rightNum, leftNum), s) := splitS numSplit s
  let ((left, noiseVars), s) := noiseTerms pc leftNum noiseVars s
  let ((right, _), _) := noiseTerms pc rightNum noiseVars s
  let items := left ++ focus ++ right
  match sumProblem items (if paren then some (left.length, left.length + focus.length - 1) else none) with
  | none => none
  | some p => some (p, left.length, right.length)

/-- `gen_combine_terms_in_place(min_terms, max_terms, easy, powers)` -/
def combineTermsInPlace (minTerms maxTerms : Nat) (easy powers : Bool) (s : Stream) :
    Option (FlatProblem × Nat) :=
  if maxTerms < minTerms then none else
  let (total, s) := randint minTerms maxTerms s
  let total := min total (variablesPool.length + 1)
  let (var, s) := randVar s
  let pc : Rat := if powers then 80 else 0
  let (power, s) := maybePower pc s
  let (c1, s) := maybeNumber 80 s
  let (c2, s) := maybeNumber 80 s
  if total < 2 then none else
  let numNoise := total - 2
  match getRandVarsS numNoise [var] s with
  | (none, _) => none
  | (some noiseVars, s) =>
    match haystackFinish pc easy [PItem.term c1 var power, PItem.term c2 var power] numNoise noiseVars s with
    | none => none
    | some (p, _, _) => some (p, total)

/-- `gen_commute_haystack(min_terms, max_terms, commute_blockers, easy, powers)` -/
def commuteHaystack (minTerms maxTerms blockers : Nat) (easy powers : Bool) (s : Stream) :
    Option (FlatProblem × Nat) :=
  if maxTerms < minTerms then none else
  let (total, s) := randint minTerms maxTerms s
  let numNoise := max (total - 2) blockers
  let (var, s) := randVar s
  match getRandVarsS numNoise [var] s with
  | (none, _) => none
  | (some noiseVars, s) =>
    let pc : Rat := if powers then 80 else 0
    let (power, s) := maybePower pc s
    let ((blocks, noiseVars), s) := noiseTerms pc blockers noiseVars s
    let (c1, s) := maybeNumber 80 s
    let (c2, s) := maybeNumber 80 s
    let (paren, s) := randBool (if easy then 50 else 10) s
    match haystackFinish pc paren ([PItem.term c1 var power] ++ blocks ++ [PItem.term c2 var power])
        (numNoise - blockers) noiseVars s with
    | none => none
    | some (p, nl, nr) => some (p, nl + 1 + nr)

/-- `get_blocker(num_blockers, exclude_vars)`: the blocker terms -/
def getBlocker (n : Nat) (exclude : List Char) (s : Stream) : Option (List PItem) × Stream :=
  match getRandVarsS n exclude s with
  | (none, s) => (none, s)
  | (some vars, s) =>
    let rec go : List Char → Stream → List PItem × Stream
      | [], s => ([], s)
      | v :: vs, s =>
        let (c, s) := maybeNumber 80 s
        let (ts, s) := go vs s
        (PItem.term c v none :: ts, s)
    let (ts, s) := go (vars.take n) s
    (some ts, s)

/-- `gen_move_around_blockers_one(number_blockers, powers_probability)`; `pp` = probability * 100 -/
def moveAroundBlockersOne (n : Nat) (pp : Rat) (s : Stream) : Option (FlatProblem × Nat) :=
  let (var, s) := randVar s
  let (exp, s) := maybePower pp s
  match getBlocker n [var] s with
  | (none, _) => none
  | (some blockers, s) =>
    let (c1, s) := maybeNumber 80 s
    let (c2, _) := maybeNumber 80 s
    match sumProblem ([PItem.term c1 var exp] ++ blockers ++ [PItem.term c2 var exp]) none with
    | none => none
    | some p => some (p, 2 + n)

/-- `gen_move_around_blockers_two(number_blockers, powers_probability)` -/
def moveAroundBlockersTwo (n : Nat) (pp : Rat) (s : Stream) : Option (FlatProblem × Nat) :=
  match getRandVarsS 3 [] s with
  | (some [one, two, three], s) =>
    let (e1, s) := maybePower pp s
    let (e2, s) := maybePower pp s
    let (e3, s) := maybePower pp s
    let (c1, s) := maybeNumber 80 s
    let (c2, s) := maybeNumber 80 s
    match getBlocker n [one, two, three] s with
    | (none, _) => none
    | (some blockers, s) =>
      let (c3, s) := maybeNumber 80 s
      let (c4, _) := maybeNumber 80 s
      match sumProblem ([PItem.term c1 one e1, PItem.term c2 two e2] ++ blockers ++
          [PItem.term c3 two e2, PItem.term c4 three e3]) none with
      | none => none
      | some p => some (p, 4 + n)
  | _ => none

/-- `random.shuffle` of a two-element list: one draw `randbelow(2)`, swap when it is 0 -/
def shuffle2 (a b : PItem) (s : Stream) : (PItem × PItem) × Stream :=
  let (j, s) := draw 2 s
  (if j = 0 then (b, a) else (a, b), s)

/-- the variable parts of the terms of a binomial problem: `terms[i]` for the first `numVars` slots
(`none` = the empty string).  `pp2` = `power_prob_percent * 2` -/
def binomialVars (powers likeVars : Bool) (numVars : Nat) (pp2 : Rat) (s : Stream) :
    Option (List (Char × Option (List Char))) × Stream :=
  if likeVars then
    let (v, s) := randVar s
    if powers then
      let (p, s) := maybePower pp2 s
      (some (List.replicate numVars (v, p)), s)
    else (some (List.replicate numVars (v, none)), s)
  else
    match getRandVarsS numVars [] s with
    | (none, s) => (none, s)
    | (some vs, s) =>
      let rec go : List Char → Stream → List (Char × Option (List Char)) × Stream
        | [], s => ([], s)
        | v :: vs, s =>
          if powers then
            let (p, s) := maybePower pp2 s
            let (r, s) := go vs s
            ((v, p) :: r, s)
          else
            let (r, s) := go vs s
            ((v, none) :: r, s)
      let (r, s) := go vs s
      (some r, s)

/-- "conditionally attach coefficients": a slot with a variable keeps it bare when
`simple_variables`, otherwise gets a `rand_number()` coefficient; an empty slot becomes a number -/
def binomialTerms (simple : Bool) : Nat → List (Char × Option (List Char)) → Stream → List PItem × Stream
  | 0, _, s => ([], s)
  | n + 1, [], s =>
    let (c, s) := randNumber s
    let (r, s) := binomialTerms simple n [] s
    (PItem.num c :: r, s)
  | n + 1, (v, p) :: vs, s =>
    if simple then
      let (r, s) := binomialTerms simple n vs s
      (PItem.term none v p :: r, s)
    else
      let (c, s) := randNumber s
      let (r, s) := binomialTerms simple n vs s
      (PItem.term (some c) v p :: r, s)

/-- `gen_binomial_times_binomial(min_vars, max_vars, simple_variables, powers_probability,
like_variables_probability)`; `pp` / `lp` = the probabilities * 100 -/
def binomialTimesBinomial (minVars maxVars : Nat) (simple : Bool) (pp lp : Rat) (s : Stream) :
    Option (BinomialProblem × Nat) :=
  let (powers, s) := randBool pp s
  let (likeVars, s) := randBool lp s
  if maxVars < minVars then none else
  let (numVars, s) := randint minVars maxVars s
  if 4 < numVars then none else       -- `terms[i] = …` beyond the four slots: IndexError
  match binomialVars powers likeVars numVars (pp * 2) s with
  | (none, _) => none
  | (some vars, s) =>
    match binomialTerms simple 4 vars s with
    | ([t0, t1, t2, t3], s) =>
      let ((f0, f1), s) := shuffle2 t0 t2 s
      let ((s0, s1), _) := shuffle2 t1 t3 s
      some (.timesBinomial f0 f1 s0 s1, 6)
    | _ => none

/-- `gen_binomial_times_monomial(…)` -/
def binomialTimesMonomial (minVars maxVars : Nat) (simple : Bool) (pp lp : Rat) (s : Stream) :
    Option (BinomialProblem × Nat) :=
  let (powers, s) := randBool pp s
  let (likeVars, s) := randBool lp s
  if maxVars < minVars then none else
  let (numVars, s) := randint minVars maxVars s
  if 3 < numVars then none else
  match binomialVars powers likeVars numVars (pp * 2) s with
  | (none, _) => none
  | (some vars, s) =>
    match binomialTerms simple 3 vars s with
    | ([t0, t1, t2], s) =>
      let ((f0, f1), _) := shuffle2 t0 t2 s
      some (.timesMonomial f0 f1 t1, 3)
    | _ => none

/-! ### `gen_simplify_multiple_terms` -/

/-- a term template: variable and optional power (`f"{var}{maybe_power(..)}"`) -/
abbrev Template := Char × Option (List Char)

/-- generic Fisher–Yates shuffle with the draw pattern of `shuffle` -/
def swapAtG {α : Type} (l : List α) (i j : Nat) : List α :=
  match l[i]?, l[j]? with
  | some a, some b => (l.set i b).set j a
  | _, _ => l

def shuffleFromG {α : Type} : Nat → List α → Stream → List α × Stream
  | 0, l, s => (l, s)
  | i + 1, l, s =>
    let (j, s) := draw (i + 2) s
    shuffleFromG i (swapAtG l (i + 1) j) s

def shuffleG {α : Type} (l : List α) (s : Stream) : List α × Stream := shuffleFromG (l.length - 1) l s

/-- `for var in templates: f"{var}{maybe_power(pc)}"` -/
def adorn (pc : Rat) : List Char → Stream → List Template × Stream
  | [], s => ([], s)
  | v :: vs, s =>
    let (p, s) := maybePower pc s
    let (r, s) := adorn pc vs s
    ((v, p) :: r, s)

/-- the noise loops: pop variables from the end, each with a `maybe_power` -/
def noiseTemplates (pc : Rat) : Nat → List Char → Stream → (List Template × List Char) × Stream
  | 0, vars, s => (([], vars), s)
  | n + 1, vars, s =>
    match vars.getLast? with
    | none => (([], vars), s)
    | some v =>
      let (p, s) := maybePower pc s
      let ((ts, left), s) := noiseTemplates pc n vars.dropLast s
      (((v, p) :: ts, left), s)

/-- the operator source: `op=None` → `rand_op()`; a fixed operator; a list → `random.choice` -/
inductive OpSpec where
  | random
  | fixed (o : POpr)
  | choice (os : List POpr)

def oprOfIndex : Nat → POpr
  | 0 => .plus | 1 => .minus | _ => .times

def getOp (spec : OpSpec) (s : Stream) : POpr × Stream :=
  match spec with
  | .random => let (i, s) := randint 0 2 s; (oprOfIndex i, s)
  | .fixed o => (o, s)
  | .choice os => let (i, s) := draw os.length s; (os.getD i .plus, s)

/-- the tail loop: one `(operator, term)` per remaining template -/
def simplifyTail (spec : OpSpec) (optionalVar : Bool) (ovp : Rat) : List Template → Stream → List (POpr × PItem) × Stream
  | [], s => ([], s)
  | (v, p) :: ts, s =>
    let (keep, s) := if optionalVar then randBool ovp s else (true, s)
    let (item, s) : PItem × Stream :=
      if keep then
        let (c, s) := maybeNumber 80 s
        (.term c v p, s)
      else
        let (c, s) := randNumber s
        (.num c, s)
    let (o, s) := getOp spec s
    let (r, s) := simplifyTail spec optionalVar ovp ts s
    ((o, item) :: r, s)

/-- stage A: the like-term templates — shared variable handling, powers, repetition up to
`num_terms`, the extra shared template -/
def simplifyTemplates (numTerms numLike : Nat) (useNoise : Bool) (pp svp : Rat) (likeVars : List Char)
    (s : Stream) : List Template × Stream :=
  let (shareVar, s) := randBool svp s
  let first := likeVars.headD 'a'
  let likeShare := shareVar && decide (1 < numLike) && !useNoise
  let (sharedPow, s) : Option (List Char) × Stream := if shareVar then maybePower 100 s else (none, s)
  let (templates, s) : List Template × Stream :=
    if likeShare then
      let (rest, s) := adorn pp (likeVars.drop 2) s
      ((first, none) :: (first, sharedPow) :: rest, s)
    else adorn pp likeVars s
  let sharedTemplate : List Template := if shareVar && !likeShare then [(first, sharedPow)] else []
  let repeated := ((List.replicate numTerms templates).flatten).take numTerms
  (repeated ++ sharedTemplate, s)

/-- stage B: `numNoise` noise terms at both ends (`insert(0, …)` reverses the front ones) -/
def noiseAround (numTerms numNoise : Nat) (pp : Rat) (likeVars : List Char) (templates : List Template)
    (s : Stream) : Option ((List Template × Nat) × Stream) :=
  match getRandVarsS numNoise likeVars s with
  | (none, _) => none
  | (some noiseVars, s) =>
    let ((lo, hi), s) := splitS numNoise s
    let ((front, noiseVars), s) := noiseTemplates pp lo noiseVars s
    let ((back, _), s) := noiseTemplates pp hi noiseVars s
    some ((front.reverse ++ templates ++ back, numTerms + 1), s)

/-- how many noise terms: the explicit argument, or `min(5, max(1, num_terms // 3))` -/
def noiseCount (numTerms : Nat) : Option Nat → Nat
  | some n => n
  | none => min 5 (max 1 (numTerms / 3))

def simplifyNoise (useNoise : Bool) (numTerms : Nat) (noiseArg : Option Nat) (pp : Rat) (likeVars : List Char)
    (templates : List Template) (s : Stream) : Option ((List Template × Nat) × Stream) :=
  if useNoise then noiseAround numTerms (noiseCount numTerms noiseArg) pp likeVars templates s
  else some ((templates, numTerms), s)

/-- stage C: optional shuffle, the group positions, the root term and the tail -/
def simplifyFinish (useGroup : Bool) (sp : Rat) (spec : OpSpec) (optionalVar : Bool) (ovp : Rat)
    (templates : List Template) (complexity : Nat) (s : Stream) : Option (FlatProblem × Nat) :=
  let (doShuffle, s) := randBool sp s
  let (templates, s) := if doShuffle then shuffleG templates s else (templates, s)
  let (group, s) : Option (Nat × Nat) × Stream :=
    if useGroup then
      let half := max (templates.length / 2) 1
      let (gs, s) := randint 0 (half - 1) s
      let (ge, s) := randint half (templates.length - 1) s
      (some (gs, ge), s)
    else (none, s)
  match templates with
  | [] => none
  | (v, p) :: rest =>
    let (c, s) := maybeNumber 80 s
    let (tail, _) := simplifyTail spec optionalVar ovp rest s
    some (⟨.term c v p, tail, group⟩, complexity)

/-- `gen_simplify_multiple_terms(num_terms, optional_var, op, …)`; the probabilities are passed
multiplied by 100; `numLike` = `max(2, int(num_terms * inner_terms_scaling))` is computed by the
caller (float arithmetic); `noiseArg` = the explicit `noise_terms` argument if given -/
def simplifyMultipleTerms (numTerms numLike : Nat) (optionalVar : Bool) (spec : OpSpec)
    (pp ovp np sp svp gp : Rat) (noiseArg : Option Nat) (s : Stream) : Option (FlatProblem × Nat) :=
  let (useGroup, s) := randBool gp s
  let (useNoise, s) := randBool np s
  if numTerms ≤ 1 then none else
  let numLike := if numTerms = 2 then 1 else numLike
  match getRandVarsS numLike [] s with
  | (none, _) => none
  | (some likeVars, s) =>
    let (templates, s) := simplifyTemplates numTerms numLike useNoise pp svp likeVars s
    match simplifyNoise useNoise numTerms noiseArg pp likeVars templates s with
    | none => none
    | some ((templates, complexity), s) =>
      simplifyFinish useGroup sp spec optionalVar ovp templates complexity s

end Gen
end Mathy
