/-
Model of mathy_core/tokenizer.py over `List Char`.
-/
namespace Mathy

inductive TT where
  | constant | variable | plus | minus | multiply | divide | exponent | factorial
  | openParen | closeParen | function | equal | pad | eof | invalid
  deriving DecidableEq, Repr, Inhabited

/-- `TOKEN_TYPES.<name>` bit position -/
def TT.bit : TT → Nat
  | .constant => 0 | .variable => 1 | .plus => 2 | .minus => 3 | .multiply => 4 | .divide => 5
  | .exponent => 6 | .factorial => 7 | .openParen => 8 | .closeParen => 9 | .function => 10
  | .equal => 11 | .pad => 12 | .eof => 13 | .invalid => 14

structure Tok where
  type : TT
  value : List Char
  deriving DecidableEq, Repr, Inhabited

/-- `Tokenizer.is_alpha` -/
def isAlpha (c : Char) : Bool := ('a' ≤ c && c ≤ 'z') || ('A' ≤ c && c ≤ 'Z')

/-- `Tokenizer.is_number` -/
def isNumber (c : Char) : Bool := c == '.' || ('0' ≤ c && c ≤ '9')

/-- registered function names (`Tokenizer.functions`) -/
def functionNames : List (List Char) := ["sgn".toList]

/-- `identify_operators` on one character: `none` = ValueError("Invalid token") -/
def operatorTok (pad : Bool) (c : Char) : Option (List Tok) :=
  if c == ' ' || c == '\t' || c == '\r' || c == '\n' then
    some (if pad then [⟨.pad, [c]⟩] else [])
  else if c == '+' then some [⟨.plus, ['+']⟩]
  else if c == '-' || c == '–' then some [⟨.minus, ['-']⟩]
  else if c == '*' then some [⟨.multiply, ['*']⟩]
  else if c == '/' then some [⟨.divide, ['/']⟩]
  else if c == '^' then some [⟨.exponent, ['^']⟩]
  else if c == '!' then some [⟨.factorial, ['!']⟩]
  else if c == '(' || c == '[' then some [⟨.openParen, ['(']⟩]
  else if c == ')' || c == ']' then some [⟨.closeParen, [')']⟩]
  else if c == '=' then some [⟨.equal, ['=']⟩]
  else none

/-- `identify_alphas` on a maximal run of letters -/
def alphaToks (run : List Char) : List Tok :=
  if functionNames.contains run then [⟨.function, run⟩]
  else run.map fun c => ⟨.variable, [c]⟩

/-- the tokens of the input without the end marker; `pad` = `exclude_padding is False`.
The error carries the offending character.  Recursion is on fuel = input length + 1 because
each step consumes at least one character. -/
def tokenizeAux (pad : Bool) : Nat → List Char → Except Char (List Tok)
  | 0, _ => .ok []
  | _, [] => .ok []
  | fuel + 1, c :: cs =>
    if isNumber c then
      let run := (c :: cs).takeWhile isNumber
      let rest := (c :: cs).dropWhile isNumber
      match tokenizeAux pad fuel rest with
      | .ok ts => .ok (⟨.constant, run⟩ :: ts)
      | .error e => .error e
    else if isAlpha c then
      let run := (c :: cs).takeWhile isAlpha
      let rest := (c :: cs).dropWhile isAlpha
      match tokenizeAux pad fuel rest with
      | .ok ts => .ok (alphaToks run ++ ts)
      | .error e => .error e
    else
      match operatorTok pad c with
      | none => .error c
      | some t =>
        match tokenizeAux pad fuel cs with
        | .ok ts => .ok (t ++ ts)
        | .error e => .error e

/-- `Tokenizer(exclude_padding = !pad).tokenize(s)` -/
def tokenize (pad : Bool) (s : List Char) : Except Char (List Tok) :=
  match tokenizeAux pad (s.length + 1) s with
  | .ok ts => .ok (ts ++ [⟨.eof, []⟩])
  | .error e => .error e

end Mathy
