/-
Model of mathy_core/tree.py (BinaryTreeNode): generic binary trees whose nodes have 0, left-only,
right-only or 2 children; traversals with STOP; queries; rotation; cloning — as functions on
immutable shapes, and the pointer-level primitives on a heap of cells.
-/
namespace Mathy

/-- A binary tree shape; `nil` is an absent child.  `id` identifies the node object. -/
inductive BT where
  | nil
  | node (id : Nat) (l r : BT)
  deriving DecidableEq, Repr, Inhabited

namespace BT

def isNil : BT → Bool | nil => true | _ => false

def size : BT → Nat
  | nil => 0
  | node _ l r => l.size + r.size + 1

def ids : BT → List Nat
  | nil => []
  | node i l r => l.ids ++ i :: r.ids

/-! ### defining orders, with depths -/

def preorder (d : Nat) : BT → List (Nat × Nat)
  | nil => []
  | node i l r => (i, d) :: (preorder (d + 1) l ++ preorder (d + 1) r)

def inorder (d : Nat) : BT → List (Nat × Nat)
  | nil => []
  | node i l r => inorder (d + 1) l ++ (i, d) :: inorder (d + 1) r

def postorder (d : Nat) : BT → List (Nat × Nat)
  | nil => []
  | node i l r => postorder (d + 1) l ++ (postorder (d + 1) r ++ [(i, d)])

/-! ### `visit_*`: the callbacks made, and whether the traversal was stopped.
`stop i d` = the visitor returns STOP at node `i` (seen at depth `d`). -/

def visitPre (stop : Nat → Nat → Bool) (d : Nat) : BT → List (Nat × Nat) × Bool
  | nil => ([], false)
  | node i l r =>
    if stop i d then ([(i, d)], true)
    else
      let (tl, sl) := visitPre stop (d + 1) l
      if sl then ((i, d) :: tl, true)
      else
        let (tr, sr) := visitPre stop (d + 1) r
        ((i, d) :: (tl ++ tr), sr)

def visitIn (stop : Nat → Nat → Bool) (d : Nat) : BT → List (Nat × Nat) × Bool
  | nil => ([], false)
  | node i l r =>
    let (tl, sl) := visitIn stop (d + 1) l
    if sl then (tl, true)
    else if stop i d then (tl ++ [(i, d)], true)
    else
      let (tr, sr) := visitIn stop (d + 1) r
      (tl ++ (i, d) :: tr, sr)

def visitPost (stop : Nat → Nat → Bool) (d : Nat) : BT → List (Nat × Nat) × Bool
  | nil => ([], false)
  | node i l r =>
    let (tl, sl) := visitPost stop (d + 1) l
    if sl then (tl, true)
    else
      let (tr, sr) := visitPost stop (d + 1) r
      if sr then (tl ++ tr, true)
      else if stop i d then (tl ++ (tr ++ [(i, d)]), true)
      else (tl ++ (tr ++ [(i, d)]), false)

/-- everything up to and including the first element satisfying `p` -/
def takeThrough {α} (p : α → Bool) : List α → List α
  | [] => []
  | x :: xs => if p x then [x] else x :: takeThrough p xs

/-! ### paths and queries -/

inductive Dir where | L | R
  deriving DecidableEq, Repr, Inhabited

abbrev Path := List Dir

def sub : BT → Path → BT
  | t, [] => t
  | nil, _ => nil
  | node _ l _, .L :: p => sub l p
  | node _ _ r, .R :: p => sub r p

/-- path from the root to the node with identity `i` (first in pre-order) -/
def pathOf (i : Nat) : BT → Option Path
  | nil => none
  | node j l r =>
    if j = i then some []
    else match pathOf i l with
      | some p => some (.L :: p)
      | none => match pathOf i r with
        | some p => some (.R :: p)
        | none => none

def rootId : BT → Option Nat
  | nil => none
  | node i _ _ => some i

/-- `get_children()` : ids of the children, left first -/
def children : BT → List Nat
  | nil => []
  | node _ l r => l.rootId.toList ++ r.rootId.toList

def isLeaf : BT → Bool
  | node _ nil nil => true
  | _ => false

/-! ### rotation -/

/-- `node.rotate()` where the node is the `d`-child of the root of this subtree -/
def rotateTop : BT → Dir → BT
  | node p (node n a b) c, .L => node n a (node p b c)
  | node p a (node n b c), .R => node n (node p a b) c
  | t, _ => t

/-- rotate the node at `path` (non-empty: its parent is at `path.dropLast`) -/
def rotateAt : BT → Path → BT
  | t, [] => t
  | t, [d] => rotateTop t d
  | nil, _ => nil
  | node i l r, .L :: p => node i (rotateAt l p) r
  | node i l r, .R :: p => node i l (rotateAt r p)

/-! ### cloning: same shape and ids (`result.id = self.id`); object identity is a separate
matter, see the heap below -/

def mirror : BT → BT
  | nil => nil
  | node i l r => node i r.mirror l.mirror

end BT

/-! ## Pointer level -/

structure Cell where
  left : Option Nat
  right : Option Nat
  parent : Option Nat
  deriving DecidableEq, Repr, Inhabited

/-- addresses are object identities -/
abbrev Heap := Nat → Cell

def Heap.set (h : Heap) (a : Nat) (c : Cell) : Heap := fun b => if b = a then c else h b

def Heap.setParent (h : Heap) (a : Option Nat) (p : Option Nat) : Heap :=
  match a with
  | none => h
  | some a => h.set a { h a with parent := p }

/-- `self.set_left(child)` (without `clear_old_child_parent`) -/
def Heap.setLeft (h : Heap) (self : Nat) (child : Option Nat) : Heap :=
  let h1 := h.set self { h self with left := child }
  h1.setParent child (some self)

/-- `self.set_right(child)` -/
def Heap.setRight (h : Heap) (self : Nat) (child : Option Nat) : Heap :=
  let h1 := h.set self { h self with right := child }
  h1.setParent child (some self)

/-- `node.rotate()` statement by statement -/
def Heap.rotate (h : Heap) (node : Nat) : Heap :=
  match (h node).parent with
  | none => h
  | some parent =>
    let grand := (h parent).parent
    let h1 :=
      if (h parent).left = some node then
        let h := h.setLeft parent (h node).right
        let h := h.set node { h node with right := some parent }
        h.set parent { h parent with parent := some node }
      else
        let h := h.setRight parent (h node).left
        let h := h.set node { h node with left := some parent }
        h.set parent { h parent with parent := some node }
    let h2 := h1.set node { h1 node with parent := grand }
    match grand with
    | none => h2
    | some g =>
      if (h2 g).left = some parent then h2.set g { h2 g with left := some node }
      else h2.set g { h2 g with right := some node }

/-- `unlink(node)` of util.py -/
def Heap.unlink (h : Heap) (node : Nat) : Heap :=
  match (h node).parent with
  | none => h
  | some p =>
    let h1 := if (h p).left = some node then h.set p { h p with left := none } else h
    let h2 := if (h1 p).right = some node then h1.set p { h1 p with right := none } else h1
    h2.set node { h2 node with parent := none }

/-- `node.clone()` statement by statement: `result = self.__class__()` is a new cell at the next
free address `base`; then `result.set_left(self.left.clone())`, `result.set_right(self.right.clone())`.
Returns the heap, the address of the copy and the next free address; fuel bounds the depth. -/
def Heap.clone : Nat → Heap → Nat → Nat → Heap × Nat × Nat
  | 0, h, _, base => (h, base, base)
  | fuel + 1, h, a, base =>
    let r := base
    let h1 := h.set r ⟨none, none, none⟩
    let (h2, next2) :=
      match (h1 a).left with
      | some l =>
        let (h', c, n') := Heap.clone fuel h1 l (base + 1)
        (h'.setLeft r (some c), n')
      | none => (h1, base + 1)
    let (h3, next3) :=
      match (h2 a).right with
      | some rr =>
        let (h', c, n') := Heap.clone fuel h2 rr next2
        (h'.setRight r (some c), n')
      | none => (h2, next2)
    (h3, r, next3)

/-- the shape `t` with its nodes renamed to consecutive addresses from `base` in pre-order -/
def BT.relabel : BT → Nat → BT × Nat
  | .nil, base => (.nil, base)
  | .node _ l r, base =>
    let (l', n1) := l.relabel (base + 1)
    let (r', n2) := r.relabel n1
    (.node base l' r', n2)

def BT.depth : BT → Nat
  | .nil => 0
  | .node _ l r => max l.depth r.depth + 1

/-- The heap represents the shape `t` hanging under `parent`: every node's cell has exactly
the children of the shape and the right parent pointer. -/
def Rep (h : Heap) : BT → Option Nat → Prop
  | .nil, _ => True
  | .node i l r, par =>
    (h i).left = l.rootId ∧ (h i).right = r.rootId ∧ (h i).parent = par ∧
    Rep h l (some i) ∧ Rep h r (some i)

/-- build the heap cells of a shape (for the driver) -/
def BT.toCells : BT → Option Nat → List (Nat × Cell)
  | .nil, _ => []
  | .node i l r, par =>
    (i, ⟨l.rootId, r.rootId, par⟩) :: (l.toCells (some i) ++ r.toCells (some i))

def Heap.ofCells (cs : List (Nat × Cell)) : Heap := fun a =>
  match cs.find? (·.1 == a) with
  | some (_, c) => c
  | none => ⟨none, none, none⟩

end Mathy

namespace Mathy

/-! ## Look-ups built on the visits (mathy_core/expressions.py: `find_id`, `find_type`, `to_list`)

Here `id` of a `BT.node` plays the role of the node's `id` *string*, which need not be unique
(`clone()` copies it); the position in the in-order listing identifies the node object. -/

/-- last callback of a stopped traversal -/
def lastOf {α} : List α → Option α
  | [] => none
  | [x] => some x
  | _ :: xs => lastOf xs

/-- `self.find_id(i)`: `visit_inorder` with a visitor that records the node and returns STOP when
`node.id == i`; the result is the recorded node (with the depth it was seen at), or `None`. -/
def BT.findId (i : Nat) (t : BT) : Option (Nat × Nat) :=
  let (trace, stopped) := t.visitIn (fun j _ => j == i) 0
  if stopped then lastOf trace else none

/-- in-order position of the node `find_id` returns (what the correspondence check compares) -/
def BT.findIdIndex (i : Nat) (t : BT) : Option Nat :=
  let (trace, stopped) := t.visitIn (fun j _ => j == i) 0
  if stopped then some (trace.length - 1) else none

/-- `self.find_type(cls)`: an in-order visit that never stops and collects the nodes satisfying
the class test `p`. -/
def BT.findAll (p : Nat → Bool) (t : BT) : List Nat :=
  ((t.visitIn (fun _ _ => false) 0).1.filter (fun x => p x.1)).map (·.1)

/-- `self.to_list("inorder")` -/
def BT.toList (t : BT) : List Nat := ((t.visitIn (fun _ _ => false) 0).1).map (·.1)

end Mathy
