/-
Run-time library of the translator for the `evaluate` / `operate` methods of expressions.py
(`harness/py2lean_eval.py`): what Python's arithmetic on `int` / `float` values is in the model.

A value is a `PyVal` (Model/PyEval.lean): an exact `int`, a `float` idealised as an exact rational,
or NaN.  The operators below are Python's `+ - * / ** == != < > >= -x abs isinstance(x, int)` on such
values.  EXTERNALS (hand-written, validated by the correspondence run only): `math.factorial(int(v))`
and `float(np.power(float(a), float(b)))`.
-/
import Mathy.Model.PyEval
namespace Mathy.Py

def pvInt (z : Int) : PyVal := .int z
def pvNan : PyVal := .nan
def pvAdd : PyVal → PyVal → PyVal := pyArith (· + ·) (· + ·)
def pvSub : PyVal → PyVal → PyVal := pyArith (· - ·) (· - ·)
def pvMul : PyVal → PyVal → PyVal := pyArith (· * ·) (· * ·)
def pvNeg : PyVal → PyVal := pyNeg
def pvAbs : PyVal → PyVal := pyAbs
/-- `a == b` (comparisons with NaN are False) -/
def pvEq (a b : PyVal) : Bool := pyEq a b
/-- `a != b` (with NaN: True) -/
def pvNe (a b : PyVal) : Bool := !pyEq a b
/-- `a < b`, `a > b`, `a >= b` (with NaN: False) -/
def pvLt (a b : PyVal) : Bool := match a.toRat?, b.toRat? with | some x, some y => decide (x < y) | _, _ => false
def pvGt (a b : PyVal) : Bool := match a.toRat?, b.toRat? with | some x, some y => decide (y < x) | _, _ => false
def pvGe (a b : PyVal) : Bool := match a.toRat?, b.toRat? with | some x, some y => decide (y ≤ x) | _, _ => false
/-- `isinstance(v, int)` -/
def pvIsInt (v : PyVal) : Bool := v.isInt
/-- `a / b` (true division: always a float; the caller has excluded `b == 0`) -/
def pvTrueDiv (a b : PyVal) : PyVal :=
  match a.toRat?, b.toRat? with
  | some x, some y => .flt (x / y)
  | _, _ => .nan
/-- `a ** b` for `int` operands with `b >= 0`: exact at any magnitude -/
def pvIntPow : PyVal → PyVal → PyRes
  | .int a, .int b => if 0 ≤ b then .ok (.int (a ^ b.toNat)) else .error .unmodelled
  | _, _ => .error .unmodelled
/-- EXTERNAL `float(np.power(float(a), float(b)))` -/
def pvNpPower : PyVal → PyVal → PyRes
  | .int a, .int b => if 0 ≤ b then .ok (.flt ((a : Rat) ^ b.toNat)) else pyPow (.int a) (.int b)
  | a, b => pyPow a b
/-- EXTERNAL `math.factorial(int(v))` -/
def pvFactorialInt : PyVal → PyRes := pyFact

end Mathy.Py
