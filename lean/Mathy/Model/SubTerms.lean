/-
Model of `get_sub_terms` (mathy_core/util.py), the function behind `is_simple_term` and
`is_preferred_term_form`: a scan over the in-order list of the nodes of an expression that cuts it
into (coefficient, variable, exponent) triples.  The Python contains two `assert`s; `raised` is the
outcome in which one of them (or running out of the loop's fuel) would fire.
-/
import Mathy.Model.TermsLike
namespace Mathy

/-- `node.to_list("inorder")`: the node objects (as sub-trees), a unary node before its operand -/
def inorderNodes : Ex → List Ex
  | e@(.const ..) => [e]
  | e@(.var ..) => [e]
  | e@(.un _ _ c) => e :: inorderNodes c
  | e@(.bin _ _ l r) => inorderNodes l ++ e :: inorderNodes r

inductive SubTerms where
  /-- an `assert` of the Python function fails (AssertionError) -/
  | raised
  /-- `return False` -/
  | notTerms
  /-- the list of (coefficient node, variable node, exponent node) triples -/
  | terms (ts : List (Option Ex × Option Ex × Option Ex))
  deriving DecidableEq, Repr, Inhabited

/-- `safe_pop()` -/
def popNode : List Ex → Option Ex × List Ex
  | [] => (none, [])
  | x :: xs => (some x, xs)

/-- `isinstance(n, (MultiplyExpression, DivideExpression, PowerExpression))` -/
def Ex.isMulDivPow (e : Ex) : Bool := e.isOp .mul || e.isOp .div || e.isOp .pow

def optIs (p : Ex → Bool) : Option Ex → Bool
  | some e => p e
  | none => false

/-- after a coefficient or a variable was noted and `current = safe_pop()` was executed:
`none` = `return False`, `some none` = assertion fails, otherwise the new `current` and list -/
def afterLeaf (current : Option Ex) (nodes : List Ex) : Option (Option (Option Ex × List Ex)) :=
  if optIs Ex.isAddSub current then none
  else if !(current.isNone || optIs Ex.isMulDivPow current) then some none
  else if optIs (Ex.isOp .pow) current then some (some (current, nodes))
  else some (some (popNode nodes))

inductive StepOut where
  | raised
  | notTerms
  /-- next iteration: new `current`, remaining nodes, the triple appended (if any) -/
  | next (current : Option Ex) (nodes : List Ex) (triple : Option (Option Ex × Option Ex × Option Ex))
  deriving Repr, Inhabited

/-- coefficient / variable step: `leaf` decides whether `current` is taken; returns the noted node,
the new current and list; `none` = return False, `some none` = assertion fails -/
def takeLeaf (leaf : Ex → Bool) (current : Option Ex) (nodes : List Ex) :
    Option (Option (Option Ex × Option Ex × List Ex)) :=
  if optIs leaf current then
    match afterLeaf (popNode nodes).1 (popNode nodes).2 with
    | none => none
    | some none => some none
    | some (some (c', ns')) => some (some (current, c', ns'))
  else some (some (none, current, nodes))

/-- one iteration of the `while current is not None` loop, `current = some cur` -/
def subTermsStep (cur : Ex) (nodes : List Ex) : StepOut :=
  if cur.isUn .neg then .next (popNode nodes).1 (popNode nodes).2 none
  else
    match takeLeaf Ex.isConst (some cur) nodes with
    | none => .notTerms
    | some none => .raised
    | some (some (tConst, current, nodes)) =>
      match takeLeaf Ex.isVar current nodes with
      | none => .notTerms
      | some none => .raised
      | some (some (tVar, current, nodes)) =>
        let tExp : Option Ex := if optIs (Ex.isOp .pow) current then (popNode nodes).1 else none
        let current' : Option Ex :=
          if optIs (Ex.isOp .pow) current then (popNode (popNode nodes).2).1 else current
        let nodes' : List Ex := if optIs (Ex.isOp .pow) current then (popNode (popNode nodes).2).2 else nodes
        if tConst.isNone && tExp.isNone && tVar.isNone then
          if optIs (Ex.isOp .mul) current' then .next (popNode nodes').1 (popNode nodes').2 none
          else .notTerms
        else .next current' nodes' (some (tConst, tVar, tExp))

/-- the loop; the accumulator is reversed at the end -/
def subTermsLoop : Nat → Option Ex → List Ex → List (Option Ex × Option Ex × Option Ex) → SubTerms
  | 0, _, _, _ => .raised
  | _ + 1, none, _, acc => .terms acc.reverse
  | fuel + 1, some cur, nodes, acc =>
    match subTermsStep cur nodes with
    | .raised => .raised
    | .notTerms => .notTerms
    | .next c ns none => subTermsLoop fuel c ns acc
    | .next c ns (some t) => subTermsLoop fuel c ns (t :: acc)

/-- `get_sub_terms(node)` -/
def getSubTerms (e : Ex) : SubTerms :=
  let nodes := inorderNodes e
  subTermsLoop (nodes.length + 2) (popNode nodes).1 (popNode nodes).2 []

end Mathy
