/-
Model of the parts of mathy_core/util.py that the rewrite rules use:
`get_term_ex`, `factor`, `factor_add_terms_ex`, `make_term`.
(The term predicates of property C16 are in `Model/Terms.lean`.)
-/
import Mathy.Model.Expr
namespace Mathy

/-- `TermEx(coefficient, comVar, comExp)` -/
structure TermEx where
  coef : Option Rat
  var : Option Char
  exp : Option Rat
  deriving DecidableEq, Repr, Inhabited

/-- `get_term_ex(node)`; `parentIsPow` is `isinstance(node.parent, PowerExpression)`. -/
def getTermEx (parentIsPow : Bool) : Ex → Option TermEx
  | .un _ .neg (.var _ x) => some ⟨some (-1), some x, none⟩
  | .un _ .neg (.bin _ .pow (.var _ x) (.const _ e)) => some ⟨some (-1), some x, some e⟩
  | .const _ v => if parentIsPow then none else some ⟨some v, none, none⟩
  | .var _ x => if parentIsPow then none else some ⟨none, some x, none⟩
  | .bin _ .mul (.const _ c) (.var _ x) => some ⟨some c, some x, none⟩
  | .bin _ .mul (.const _ c) (.bin _ .pow (.var _ x) (.const _ e)) => some ⟨some c, some x, some e⟩
  | .bin _ .pow (.var _ x) (.const _ e) => some ⟨none, some x, some e⟩
  | _ => none

/-- `get_term_ex(child)` for a child of a node of kind `o`. -/
def getTermExUnder (o : Bop) (e : Ex) : Option TermEx := getTermEx (o == .pow) e

/-- Python dict insertion: replace the value of an existing key, otherwise append. -/
def dictSet (d : List (Rat × Rat)) (k v : Rat) : List (Rat × Rat) :=
  match d with
  | [] => [(k, v)]
  | (k', v') :: rest => if k' = k then (k', v) :: rest else (k', v') :: dictSet rest k v

def dictGet? (d : List (Rat × Rat)) (k : Rat) : Option Rat :=
  match d with
  | [] => none
  | (k', v') :: rest => if k' = k then some v' else dictGet? rest k

def dictHas (d : List (Rat × Rat)) (k : Rat) : Bool := (dictGet? d k).isSome

/-- One iteration of the `for i in range(2, sqrt)` loop of `factor`; `i*i ≤ value` is the
range test (`sqrt = int(np.sqrt(value) + 1)`), `value % i == 0` holds iff `value` is an
integer multiple of `i`. -/
def factorStep (value : Rat) (acc : List (Rat × Rat)) (i : Nat) : List (Rat × Rat) :=
  if ((i * i : Nat) : Rat) ≤ value ∧ value.den = 1 ∧ value.num % (i : Int) = 0 then
    dictSet (dictSet acc i (value / i)) (value / i) i
  else acc

/-- `factor(value)` for finite values (NaN constants are outside the model).
Negative values have no real square root: `{1: value}`. -/
def factor (value : Rat) : List (Rat × Rat) :=
  if value = 0 then []
  else if value < 0 then [(1, value)]
  else
    let base := dictSet (dictSet [] 1 value) value 1
    (List.range' 2 (value.floor.toNat - 1)).foldl (factorStep value) base

/-- `FactorResult` -/
structure FactorResult where
  best : Rat
  left : Rat
  right : Rat
  comVar : Option Char
  comExp : Option Rat
  leftExp : Option Rat
  rightExp : Option Rat
  leftVar : Option Char
  rightVar : Option Char
  deriving DecidableEq, Repr, Inhabited

def listMin : List Rat → Option Rat
  | [] => none
  | x :: xs => match listMin xs with
    | none => some x
    | some m => some (if x ≤ m then x else m)

def listMax : List Rat → Option Rat
  | [] => none
  | x :: xs => match listMax xs with
    | none => some x
    | some m => some (if m ≤ x then x else m)

/-- `factor_add_terms_ex(left_term, right_term)`; `none` is Python's `False`. -/
def factorAddTermsEx (lt rt : TermEx) : Option FactorResult :=
  let lf := factor (lt.coef.getD 1)
  let rf := factor (rt.coef.getD 1)
  let common := (rf.map (·.1)).filter (dictHas lf)
  let hasLeft := lt.var.isSome
  let hasRight := rt.var.isSome
  match (if hasLeft || hasRight then listMin common else listMax common) with
  | none => none
  | some best =>
    match dictGet? lf best, dictGet? rf best with
    | some l, some r =>
      let twoExpAndMatch := lt.exp.isSome && rt.exp.isSome && lt.exp == rt.exp
      let bothMatch := !((lt.exp.isSome || rt.exp.isSome) && !twoExpAndMatch)
      let shared := hasLeft && hasRight && lt.var == rt.var && bothMatch
      let comVar := if shared then lt.var else none
      let comExp := if shared then lt.exp else none
      some {
        best := best, left := l, right := r,
        comVar := comVar, comExp := comExp,
        leftExp := if lt.exp.isSome && lt.exp != comExp then lt.exp else none,
        rightExp := if rt.exp.isSome && rt.exp != comExp then rt.exp else none,
        leftVar := if hasLeft && lt.var != comVar then lt.var else none,
        rightVar := if hasRight && rt.var != comVar then rt.var else none }
    | _, _ => none

/-- `make_term(coefficient, comVar, comExp)`.  All nodes are new objects.
`none`: an comExp without a comVar (`VariableExpression(None)` in Python, which cannot be
printed or evaluated); `factor_add_terms_ex` never produces that combination. -/
def makeTerm (c : Rat) (v : Option Char) (e : Option Rat) : Option Ex :=
  match v, e with
  | none, none => some (.const 0 c)
  | none, some _ => none
  | some x, none => if c = 1 then some (.var 0 x) else some (.bin 0 .mul (.const 0 c) (.var 0 x))
  | some x, some e =>
    if c = 1 then some (.bin 0 .pow (.var 0 x) (.const 0 e))
    else some (.bin 0 .mul (.const 0 c) (.bin 0 .pow (.var 0 x) (.const 0 e)))

end Mathy
