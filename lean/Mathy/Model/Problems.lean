/-
Model of mathy_core/problems.py for property C17: the helpers as functions of explicit draws,
and the SHAPES of the texts the generators assemble (at token level).  That every text a real
generator returns is an instance of its shape is checked on every generated text by the
correspondence run (harness/props_problems.py re-derives the shape from the text and compares
the model's tokens with the real tokenizer's); Python's `random` internals and the `repr` of
one-decimal floats are trusted.
-/
import Mathy.Model.Parser
import Mathy.Model.TermsLike
namespace Mathy

/-! ### helpers -/

/-- `get_rand_vars(num_vars, exclude_vars)` after the draw: `picks` are the positions
`random.sample` chose in the list of available variables (distinct, in range — the contract of
`random.sample`), already in their final shuffled order -/
def getRandVars (pool exclude : List Char) (n : Nat) (picks : List Nat) : Option (List Char) :=
  let available := pool.filter (fun v => !exclude.contains v)
  if n > 25 then none
  else if n > available.length then none
  else some (picks.filterMap fun i => available[i]?)

/-- `split_in_two_random(value)` with `factor = random.uniform(0, 1)` given as a rational in [0,1] -/
def splitInTwo (value : Nat) (factor : Rat) : Nat × Nat :=
  let left := (factor * value).floor.toNat
  let right := value - left
  (min left right, max left right)

/-! ### problem texts as token shapes -/

/-- a number as `f"{number}"` prints it: optional minus sign and an unsigned literal -/
structure PNum where
  neg : Bool
  text : List Char
  deriving DecidableEq, Repr, Inhabited

/-- `f"{maybe_number()}{var}{maybe_power()}"`, or a bare number -/
inductive PItem where
  | term (coef : Option PNum) (var : Char) (pow : Option (List Char))
  | num (n : PNum)
  deriving DecidableEq, Repr, Inhabited

def PNum.toks (n : PNum) : List Tok :=
  (if n.neg then [⟨.minus, ['-']⟩] else []) ++ [⟨.constant, n.text⟩]

def PItem.toks : PItem → List Tok
  | .term coef v pow =>
    (match coef with | some n => n.toks | none => []) ++ [⟨.variable, [v]⟩] ++
    (match pow with | some p => [⟨.exponent, ['^']⟩, ⟨.constant, p⟩] | none => [])
  | .num n => n.toks

/-- the operators a generator joins terms with -/
inductive POpr where | plus | minus | times
  deriving DecidableEq, Repr, Inhabited

def POpr.tok : POpr → Tok
  | .plus => ⟨.plus, ['+']⟩ | .minus => ⟨.minus, ['-']⟩ | .times => ⟨.multiply, ['*']⟩

/-- a flat problem: `first (op item)*` with an optional parenthesised group that starts before
item `gs` and ends after item `ge` (0-based positions in the whole item list, `gs < ge`) -/
structure FlatProblem where
  first : PItem
  rest : List (POpr × PItem)
  group : Option (Nat × Nat)
  deriving DecidableEq, Repr, Inhabited

def openTok : Tok := ⟨.openParen, ['(']⟩
def closeTok : Tok := ⟨.closeParen, [')']⟩

def FlatProblem.itemToks (p : FlatProblem) (i : Nat) (it : PItem) : List Tok :=
  (match p.group with | some (gs, _) => if gs == i then [openTok] else [] | none => []) ++ it.toks ++
  (match p.group with | some (_, ge) => if ge == i then [closeTok] else [] | none => [])

/-- tokens of the problem text (without the end marker) -/
def FlatProblem.toks (p : FlatProblem) : List Tok :=
  p.itemToks 0 p.first ++
  (p.rest.zipIdx.flatMap fun q => q.1.1.tok :: p.itemToks (q.2 + 1) q.1.2)

/-- `(a + b)(c + d)` and `(a + b) * c` -/
inductive BinomialProblem where
  | timesBinomial (a b c d : PItem)
  | timesMonomial (a b c : PItem)
  deriving DecidableEq, Repr, Inhabited

def plusTok : Tok := ⟨.plus, ['+']⟩

def BinomialProblem.toks : BinomialProblem → List Tok
  | .timesBinomial a b c d =>
    [openTok] ++ a.toks ++ [plusTok] ++ b.toks ++ [closeTok] ++ [openTok] ++ c.toks ++ [plusTok] ++ d.toks ++ [closeTok]
  | .timesMonomial a b c =>
    [openTok] ++ a.toks ++ [plusTok] ++ b.toks ++ [closeTok] ++ [⟨.multiply, ['*']⟩] ++ c.toks

/-! well-formedness: number texts are valid literals; the group is inside the list -/

def PNum.ok (n : PNum) : Bool := (parseNumber n.text).isSome

def PItem.ok : PItem → Bool
  | .term coef _ pow =>
    (match coef with | some n => n.ok | none => true) &&
    (match pow with | some p => (parseNumber p).isSome | none => true)
  | .num n => n.ok

def FlatProblem.ok (p : FlatProblem) : Bool :=
  p.first.ok && p.rest.all (fun q => q.2.ok) &&
  (match p.group with | some (gs, ge) => gs < ge && ge ≤ p.rest.length | none => true)

def BinomialProblem.ok : BinomialProblem → Bool
  | .timesBinomial a b c d => a.ok && b.ok && c.ok && d.ok
  | .timesMonomial a b c => a.ok && b.ok && c.ok

/-- the like-term promise of combine-terms / commute-haystack / move-around-blockers: all
operators are `+`, and two of the items are terms with the same variable and the same power -/
def FlatProblem.items (p : FlatProblem) : List PItem := p.first :: p.rest.map (·.2)

def PItem.key : PItem → Option (Char × Option (List Char))
  | .term _ v pow => some (v, pow)
  | .num _ => none

def FlatProblem.promisesLike (p : FlatProblem) : Bool :=
  p.rest.all (fun q => q.1 == .plus) &&
  (p.items.zipIdx.any fun a => p.items.zipIdx.any fun b =>
      a.2 < b.2 && a.1.key.isSome && a.1.key == b.1.key)

end Mathy
