/-
The tidy-tree invariants of property C18 as decidable checks on the model's output, and the
enumeration of all binary shapes.
-/
import Mathy.Model.Layout
namespace Mathy

inductive LInv where
  | yIsDepth | leftChildLeft | rightChildRight | parentCentred | levelSeparation
  | boundsAreBbox | repeatable | mirrorSymmetric
  deriving DecidableEq, Repr, Inhabited

/-- depths in pre-order -/
def BT.depths : BT → Nat → List Nat
  | .nil, _ => []
  | .node _ l r, d => d :: (l.depths (d + 1) ++ r.depths (d + 1))

/-- pre-order index of each node together with its level and its left-to-right rank key
(the path, L < R) -/
def BT.paths : BT → List Bool → List (List Bool)
  | .nil, _ => []
  | .node _ l r, p => p :: (l.paths (p ++ [false]) ++ r.paths (p ++ [true]))

def pathLt : List Bool → List Bool → Bool
  | [], [] => false
  | [], _ => true
  | _, [] => false
  | a :: as, b :: bs => if a == b then pathLt as bs else (!a && b)

def minL (l : List Rat) : Rat := match l with | [] => 0 | x :: xs => xs.foldl (fun a b => if b < a then b else a) x
def maxL (l : List Rat) : Rat := match l with | [] => 0 | x :: xs => xs.foldl (fun a b => if a < b then b else a) x

/-- invariants of a single layout result that are violated -/
def localViolations (t : BT) (ux uy : Rat) (st : LState) : List LInv :=
  let nodes := flatten t
  let n := nodes.length
  let idx := List.range n
  let depths := t.depths 0
  let paths := t.paths []
  let yBad := idx.any fun i => getR st.y i != ((depths.getD i 0 : Nat) : Rat) * uy
  let lBad := idx.any fun i => match (nodes.getD i ⟨none, none⟩).left with
    | some c => !(getR st.x c < getR st.x i) | none => false
  let rBad := idx.any fun i => match (nodes.getD i ⟨none, none⟩).right with
    | some c => !(getR st.x i < getR st.x c) | none => false
  let cBad := idx.any fun i => match (nodes.getD i ⟨none, none⟩).left, (nodes.getD i ⟨none, none⟩).right with
    | some a, some b => getR st.x a + getR st.x b != 2 * getR st.x i | _, _ => false
  let sBad := idx.any fun i => idx.any fun j =>
    depths.getD i 0 == depths.getD j 0 && pathLt (paths.getD i []) (paths.getD j []) &&
      !(ux ≤ getR st.x j - getR st.x i)
  let b := bounds st
  let bBad := !(b.1 == minL st.x && b.2.1 == maxL st.x && b.2.2.1 == minL st.y && b.2.2.2 == maxL st.y)
  (if yBad then [LInv.yIsDepth] else []) ++ (if lBad then [.leftChildLeft] else []) ++
  (if rBad then [.rightChildRight] else []) ++ (if cBad then [.parentCentred] else []) ++
  (if sBad then [.levelSeparation] else []) ++ (if bBad then [.boundsAreBbox] else [])

/-- pre-order index permutation induced by mirroring: position of node k of `t` in `t.mirror` -/
def BT.mirrorIndexAux : BT → Nat → List Nat
  | .nil, _ => []
  | .node _ l r, base =>
    -- in the mirror, this node is first, then mirrored r, then mirrored l
    base :: (l.mirrorIndexAux (base + 1 + r.size) ++ r.mirrorIndexAux (base + 1))

def BT.mirrorIndex (t : BT) : List Nat := t.mirrorIndexAux 0

/-- all invariants violated on shape `t` at units (1,1): single call, repeated call, mirror -/
def violations (t : BT) : List LInv :=
  match layout t 1 1, layoutTwice t 1 1, layout t.mirror 1 1 with
  | some st, some st2, some stm =>
    let loc := localViolations t 1 1 st
    let rep := if st.x == st2.x && st.y == st2.y then [] else [LInv.repeatable]
    let mi := t.mirrorIndex
    let idx := List.range (flatten t).length
    let mir := if idx.all (fun i => getR stm.x (mi.getD i 0) == - getR st.x i &&
                                    getR stm.y (mi.getD i 0) == getR st.y i) then [] else [LInv.mirrorSymmetric]
    loc ++ rep ++ mir
  | _, _, _ => [.repeatable, .mirrorSymmetric, .yIsDepth]  -- loop guard tripped (never for listed shapes)

/-- `[shapes with 0 nodes, …, shapes with n nodes]` (ids 0), built bottom-up -/
def shapeTable : Nat → List (List BT)
  | 0 => [[.nil]]
  | n + 1 =>
    let prev := shapeTable n
    let new := (List.range (n + 1)).flatMap fun k =>
      (prev.getD k []).flatMap fun l => (prev.getD (n - k) []).map fun r => BT.node 0 l r
    prev ++ [new]

/-- all shapes with 1 … n nodes -/
def shapesUpTo (n : Nat) : List BT := ((shapeTable n).drop 1).flatten

end Mathy
