/-
Wire format of the correspondence line protocol (shared by `Main.lean`).
Trees are written in prefix form, space separated:
  C <tag> <num> <den> | V <tag> <char> | U <tag> <op> <child> | B <tag> <op> <left> <right>
-/
import Mathy.Model.Rules
import Mathy.Model.Parser
import Mathy.Model.Print
import Mathy.Model.PrintStr
import Mathy.Model.ParserObj
import Mathy.Model.Tree
import Mathy.Model.Layout
import Mathy.Model.PyEval
import Mathy.Model.TermsLike
import Mathy.Model.SubTerms
import Mathy.Model.Problems
import Mathy.Model.ProblemGen
namespace Mathy

def Bop.name : Bop → String
  | .add => "add" | .sub => "sub" | .mul => "mul" | .div => "div" | .pow => "pow" | .eq => "eq"

def Uop.name : Uop → String
  | .neg => "neg" | .fact => "fact" | .sgn => "sgn" | .abs => "abs"

def Bop.ofName? : String → Option Bop
  | "add" => some .add | "sub" => some .sub | "mul" => some .mul | "div" => some .div
  | "pow" => some .pow | "eq" => some .eq | _ => none

def Uop.ofName? : String → Option Uop
  | "neg" => some .neg | "fact" => some .fact | "sgn" => some .sgn | "abs" => some .abs | _ => none

def ratToWire (q : Rat) : String := s!"{q.num} {q.den}"

def Ex.toWire : Ex → String
  | .const t v => s!"C {t} {ratToWire v}"
  | .var t x => s!"V {t} {x}"
  | .un t o c => s!"U {t} {o.name} {c.toWire}"
  | .bin t o l r => s!"B {t} {o.name} {l.toWire} {r.toWire}"

def mkRatWire (n d : String) : Option Rat :=
  match n.toInt?, d.toNat? with
  | some n, some d => if d = 0 then none else some (mkRat n d)
  | _, _ => none

/-- parse one tree from the front of a token list (fuel = number of tokens) -/
def Ex.ofWire : Nat → List String → Option (Ex × List String)
  | 0, _ => none
  | fuel + 1, toks =>
    match toks with
    | "C" :: t :: n :: d :: rest =>
      match t.toNat?, mkRatWire n d with
      | some t, some q => some (.const t q, rest)
      | _, _ => none
    | "V" :: t :: x :: rest =>
      match t.toNat?, x.toList with
      | some t, [c] => some (.var t c, rest)
      | _, _ => none
    | "U" :: t :: o :: rest =>
      match t.toNat?, Uop.ofName? o with
      | some t, some o =>
        match Ex.ofWire fuel rest with
        | some (c, rest) => some (.un t o c, rest)
        | none => none
      | _, _ => none
    | "B" :: t :: o :: rest =>
      match t.toNat?, Bop.ofName? o with
      | some t, some o =>
        match Ex.ofWire fuel rest with
        | some (l, rest) =>
          match Ex.ofWire fuel rest with
          | some (r, rest) => some (.bin t o l r, rest)
          | none => none
        | none => none
      | _, _ => none
    | _ => none

def Rule.ofName? : String → Option Rule
  | "as" => some .associative
  | "cs1" => some (.commutative true)
  | "cs0" => some (.commutative false)
  | "ca" => some .constants
  | "df0" => some (.factorOut false)
  | "df1" => some (.factorOut true)
  | "dm" => some .distribute
  | "mi" => some .inverse
  | "rs" => some .restate
  | "vm" => some .variableMultiply
  | "bm" => some .balancedMove
  | _ => none

def RErr.name : RErr → String
  | .notApplicable => "notApplicable" | .nonFinite => "nonFinite"
  | .outOfDomain => "outOfDomain" | .internal => "internal"

def Bad.name : Bad → String
  | .undef => "undef" | .unequal => "unequal"

def Res.toWire : Res → String
  | .ok v => s!"ok {ratToWire v}"
  | .error e => e.name

/-- `x=num/den` assignments, space separated; unlisted variables are 0 -/
def envOfWire (toks : List String) : Env := fun c =>
  (toks.findSome? fun tok =>
    match tok.splitOn "=" with
    | [x, v] =>
      if x.toList = [c] then
        match v.splitOn "/" with
        | [n, d] => mkRatWire n d
        | _ => none
      else none
    | _ => none).getD 0

/-! text is sent as comma separated code points (`-` for the empty string) -/

def textOfWire (s : String) : Option (List Char) :=
  if s == "-" then some []
  else (s.splitOn ",").mapM fun n => n.toNat?.map Char.ofNat

def textToWire (cs : List Char) : String :=
  if cs.isEmpty then "-" else ",".intercalate (cs.map fun c => toString c.toNat)

def TT.name : TT → String
  | .constant => "Constant" | .variable => "Variable" | .plus => "Plus" | .minus => "Minus"
  | .multiply => "Multiply" | .divide => "Divide" | .exponent => "Exponent"
  | .factorial => "Factorial" | .openParen => "OpenParen" | .closeParen => "CloseParen"
  | .function => "Function" | .equal => "Equal" | .pad => "Pad" | .eof => "EOF" | .invalid => "Invalid"

def Tok.toWire (t : Tok) : String := s!"{t.type.name}:{textToWire t.value}"

def PErr.name : PErr → String
  | .invalidExpression => "InvalidExpression" | .outOfTokens => "OutOfTokens"
  | .invalidSyntax => "InvalidSyntax" | .unexpectedBehavior => "UnexpectedBehavior"
  | .trailingTokens => "TrailingTokens" | .badNumber => "ValueError:number" | .fuel => "MODEL-FUEL"

def ParseOut.toWire : ParseOut → String
  | .tree e => s!"ok {e.toWire}"
  | .perr e => s!"perr {e.name}"
  | .badChar c => s!"badchar {c.toNat}"

/-- history ops: `p:<text>` `t:<text>` `c` `x:<i>:<n>` -/
def POp.ofWire (s : String) : Option POp :=
  match s.splitOn ":" with
  | ["p", t] => (textOfWire t).map .parse
  | ["t", t] => (textOfWire t).map .tokenize
  | ["c"] => some .clear
  | ["x", i, n] => match i.toNat?, n.toNat? with
    | some i, some n => some (.consume i n)
    | _, _ => none
  | _ => none

def POut.toWire : POut → String
  | .parsed o => o.toWire
  | .tokens ts => " ".intercalate ("toks" :: ts.map Tok.toWire)
  | .badChar c => s!"badchar {c.toNat}"
  | .unit => "unit"

/-! shapes: `N <id> <left> <right>` | `.` -/

def BT.toWire : BT → String
  | .nil => "."
  | .node i l r => s!"N {i} {l.toWire} {r.toWire}"

def BT.ofWire : Nat → List String → Option (BT × List String)
  | 0, _ => none
  | fuel + 1, toks =>
    match toks with
    | "." :: rest => some (.nil, rest)
    | "N" :: i :: rest =>
      match i.toNat? with
      | some i =>
        match BT.ofWire fuel rest with
        | some (l, rest) =>
          match BT.ofWire fuel rest with
          | some (r, rest) => some (.node i l r, rest)
          | none => none
        | none => none
      | none => none
    | _ => none

def optNat (o : Option Nat) : String := match o with | some n => toString n | none => "-"

def cellsToWire (h : Heap) (ids : List Nat) : String :=
  " ".intercalate (ids.map fun i => s!"{i}:{optNat (h i).left}:{optNat (h i).right}:{optNat (h i).parent}")

def traceToWire (tr : List (Nat × Nat)) : String :=
  " ".intercalate (tr.map fun p => s!"{p.1}:{p.2}")

def ratsToWire (l : List Rat) : String := " ".intercalate (l.map fun q => s!"{q.num}/{q.den}")

def ratOfWire (s : String) : Option Rat :=
  match s.splitOn "/" with
  | [n, d] => mkRatWire n d
  | _ => none

/-! typed trees for `pyEval`: `I <z>` | `F <num> <den>` | `V <c>` | `U <op> <c>` | `B <op> <l> <r>` -/

def PEx.ofWire : Nat → List String → Option (PEx × List String)
  | 0, _ => none
  | fuel + 1, toks =>
    match toks with
    | "I" :: z :: rest => z.toInt?.map fun z => (.cint z, rest)
    | "F" :: n :: d :: rest => (mkRatWire n d).map fun q => (.cflt q, rest)
    | "V" :: x :: rest => match x.toList with | [c] => some (.var c, rest) | _ => none
    | "U" :: o :: rest =>
      match Uop.ofName? o, PEx.ofWire fuel rest with
      | some o, some (c, rest) => some (.un o c, rest)
      | _, _ => none
    | "B" :: o :: rest =>
      match Bop.ofName? o, PEx.ofWire fuel rest with
      | some o, some (l, rest) =>
        match PEx.ofWire fuel rest with
        | some (r, rest) => some (.bin o l r, rest)
        | none => none
      | _, _ => none
    | _ => none

def PyVal.toWire : PyVal → String
  | .int z => s!"int {z}"
  | .flt q => s!"flt {q.num} {q.den}"
  | .nan => "nan"

def PyExc.name : PyExc → String
  | .unboundVariable => "unboundVariable" | .equationDidNotHold => "equationDidNotHold"
  | .factorialDomain => "factorialDomain" | .unmodelled => "unmodelled"

/-- `x=i:<z>` or `x=f:<n>/<d>` -/
def pyEnvOfWire (toks : List String) : PyEnv := fun c =>
  toks.findSome? fun tok =>
    match tok.splitOn "=" with
    | [x, v] =>
      if x.toList = [c] then
        match v.splitOn ":" with
        | ["i", z] => z.toInt?.map PyVal.int
        | ["f", q] => (ratOfWire q).map PyVal.flt
        | _ => none
      else none
    | _ => none

/-! problem shapes: item = `T:<coef>:<var>:<pow>` | `N:<num>`; num = `-` (absent) | `p<text>` | `m<text>`;
text / pow as comma separated code points -/

def PNum.ofWire (s : String) : Option (Option PNum) :=
  if s == "-" then some none
  else match s.toList with
    | 'p' :: rest => (textOfWire (String.ofList rest)).map fun t => some ⟨false, t⟩
    | 'm' :: rest => (textOfWire (String.ofList rest)).map fun t => some ⟨true, t⟩
    | _ => none

def PItem.ofWire (s : String) : Option PItem :=
  match s.splitOn ":" with
  | ["T", c, v, p] =>
    match PNum.ofWire c, v.toList with
    | some coef, [x] =>
      if p == "-" then some (.term coef x none)
      else (textOfWire p).map fun t => .term coef x (some t)
    | _, _ => none
  | ["N", n] => match PNum.ofWire n with
    | some (some n) => some (.num n)
    | _ => none
  | _ => none

def POpr.ofWire : String → Option POpr
  | "+" => some .plus | "-" => some .minus | "*" => some .times | _ => none

end Mathy
