/-
Model of mathy_core/layout.py (`TreeLayout.measure` / `transform`), statement by statement,
over exact rationals.  Nodes are numbered in pre-order; the per-node attributes the Python code
keeps on the node objects (`offset`, `thread`, `x`, `y`) persist between `layout` calls, so a
repeated call starts from the state the first call left behind.

Two observations the model reproduces literally:
 * the `level` attribute the extreme selection reads is never assigned (only `y` is), so both
   `getattr(..., "level", -1)` are `-1` and the `else` branches are always taken;
 * `thread` attributes are never cleared.
-/
import Mathy.Model.Tree
namespace Mathy

structure LNode where
  left : Option Nat
  right : Option Nat
  deriving Repr, Inhabited, DecidableEq

/-- flatten a shape: node `k` of the result is the `k`-th node in pre-order -/
def flattenAux : BT → Nat → List LNode × Nat
  | .nil, next => ([], next)
  | .node _ l r, next =>
    let me := next
    let (ls, n1) := flattenAux l (me + 1)
    let (rs, n2) := flattenAux r n1
    let li := if l.isNil then none else some (me + 1)
    let ri := if r.isNil then none else some n1
    (⟨li, ri⟩ :: (ls ++ rs), n2)

def flatten (t : BT) : List LNode := (flattenAux t 0).1

structure LState where
  offset : List Rat
  /-- `none` = the attribute was never assigned (`getattr(node, "thread", default)`) -/
  thread : List (Option Nat)
  x : List Rat
  y : List Rat
  deriving Repr, Inhabited, DecidableEq

def LState.init (n : Nat) : LState :=
  ⟨List.replicate n 0, List.replicate n none, List.replicate n 0, List.replicate n 0⟩

def getR (l : List Rat) (i : Nat) : Rat := l.getD i 0

/-- `getattr(node, "thread", fallback)` -/
def threadOr (st : LState) (i : Nat) (fallback : Option Nat) : Option Nat :=
  match st.thread.getD i none with
  | some t => some t
  | none => fallback

structure Loop where
  left : Option Nat
  right : Option Nat
  cur : Rat
  root : Rat
  los : Rat
  ros : Rat
  deriving Repr, Inhabited

/-- the `while left and right` loop; `fuel` bounds the iterations (Python gives up at 100000) -/
def pushApart (nodes : List LNode) (st : LState) : Nat → Loop → Option Loop
  | 0, _ => none
  | fuel + 1, s =>
    match s.left, s.right with
    | some l, some r =>
      let (cur, root) := if s.cur < 1 then ((1 : Rat), s.root + (1 - s.cur)) else (s.cur, s.root)
      let ln := nodes.getD l ⟨none, none⟩
      let rn := nodes.getD r ⟨none, none⟩
      let lo := getR st.offset l
      let ro := getR st.offset r
      -- left contour: follow the right side
      let (los, cur, left') :=
        if ln.right.isSome && lo != 0 then (s.los + lo, cur - lo, threadOr st l ln.right)
        else (s.los - lo, cur + lo, threadOr st l ln.left)
      -- right contour: follow the left side
      let (ros, cur, right') :=
        if rn.left.isSome && ro != 0 then (s.ros - ro, cur - ro, threadOr st r rn.left)
        else (s.ros + ro, cur + ro, threadOr st r rn.right)
      pushApart nodes st fuel ⟨left', right', cur, root, los, ros⟩
    | _, _ => some s

def addOffset (st : LState) (i : Option Nat) (d : Rat) : LState :=
  match i with
  | none => st
  | some i => { st with offset := st.offset.set i (getR st.offset i + d) }

def absR (q : Rat) : Rat := if q < 0 then -q else q

/-- `measure(node, level)`: returns the new state and the extremes (left, right) of the subtree;
`none` = the loop guard tripped -/
def measure (nodes : List LNode) : Nat → LState → Option Nat → Nat → Option (LState × Option Nat × Option Nat)
  | 0, _, _, _ => none
  | _, st, none, _ => some (st, none, none)
  | fuel + 1, st, some i, level =>
    let nd := nodes.getD i ⟨none, none⟩
    let st := { st with y := st.y.set i (level : Nat) }
    match measure nodes fuel st nd.left (level + 1) with
    | none => none
    | some (st, lel, _ler) =>
      match measure nodes fuel st nd.right (level + 1) with
      | none => none
      | some (st, _rel, rer) =>
        match nd.left, nd.right with
        | none, none => some ({ st with offset := st.offset.set i 0 }, some i, some i)
        | some c, none => some ({ st with offset := st.offset.set i 1 }, some c, some c)
        | none, some c => some ({ st with offset := st.offset.set i 1 }, some c, some c)
        | some l, some r =>
          match pushApart nodes st (2 * nodes.length + 2) ⟨some l, some r, 1, 0, 0, 0⟩ with
          | none => none
          | some lp =>
            let off := (lp.root + 1) / 2
            let st := { st with offset := st.offset.set i off }
            let los := lp.los - off
            let ros := lp.ros + off
            -- extremes (the `level` comparisons are always false, see the file header)
            let st := addOffset st lel (-off)
            let st := addOffset st rer off
            -- threading
            let st :=
              match lp.left, rer with
              | some lf, some re =>
                if lf != l then
                  { st with thread := st.thread.set re (some lf),
                            offset := st.offset.set re (absR (getR st.offset re + off - los)) }
                else
                  (match lp.right, lel with
                   | some rt, some le =>
                     if rt != r then
                       { st with thread := st.thread.set le (some rt),
                                 offset := st.offset.set le (absR (getR st.offset le - off - ros)) }
                     else st
                   | _, _ => st)
              | _, _ =>
                (match lp.right, lel with
                 | some rt, some le =>
                   if rt != r then
                     { st with thread := st.thread.set le (some rt),
                               offset := st.offset.set le (absR (getR st.offset le - off - ros)) }
                   else st
                 | _, _ => st)
            some (st, lel, rer)

/-- `transform(node, x)` with unit multipliers -/
def transform (nodes : List LNode) (ux uy : Rat) : Nat → LState → Option Nat → Rat → LState
  | 0, st, _, _ => st
  | _, st, none, _ => st
  | fuel + 1, st, some i, x =>
    let nd := nodes.getD i ⟨none, none⟩
    let st := { st with x := st.x.set i (x * ux), y := st.y.set i (getR st.y i * uy) }
    let off := getR st.offset i
    let st := transform nodes ux uy fuel st nd.left (x - off)
    transform nodes ux uy fuel st nd.right (x + off)

/-- one `TreeLayout().layout(root, ux, uy)` call starting from state `st` -/
def layoutFrom (nodes : List LNode) (ux uy : Rat) (st : LState) : Option LState :=
  if nodes.isEmpty then some st else
  match measure nodes (nodes.length + 1) st (some 0) 0 with
  | none => none
  | some (st, _, _) => some (transform nodes ux uy (nodes.length + 1) st (some 0) 0)

def layout (t : BT) (ux uy : Rat) : Option LState :=
  layoutFrom (flatten t) ux uy (LState.init (flatten t).length)

/-- a second call on the same node objects -/
def layoutTwice (t : BT) (ux uy : Rat) : Option LState :=
  match layout t ux uy with
  | none => none
  | some st => layoutFrom (flatten t) ux uy st

/-- `TreeMeasurement` (minX, maxX, minY, maxY) as `transform` accumulates it -/
def bounds (st : LState) : Rat × Rat × Rat × Rat :=
  (st.x.foldl (fun a b => if b < a then b else a) 10000,
   st.x.foldl (fun a b => if a < b then b else a) 0,
   st.y.foldl (fun a b => if b < a then b else a) 10000,
   st.y.foldl (fun a b => if a < b then b else a) 0)

end Mathy
