/-
Model of the term predicates of mathy_core/util.py used by property C16:
`get_terms`, `get_term` (as far as `has_like_terms` / `terms_are_like` consume it),
`has_like_terms`, `terms_are_like`.
-/
import Mathy.Model.Util
namespace Mathy

def Bop.isAddSub' : Bop → Bool | .add => true | .sub => true | _ => false

def Ex.isAddSub : Ex → Bool
  | .bin _ o _ _ => o.isAddSub'
  | _ => false

/-- `len(node.find_type(AddExpression)) > 0` -/
def hasAddNode : Ex → Bool
  | .const .. => false
  | .var .. => false
  | .un _ _ c => hasAddNode c
  | .bin _ o l r => o == .add || hasAddNode l || hasAddNode r

/-- an Add or Subtract node anywhere in the subtree -/
def hasAddSubNode : Ex → Bool
  | .const .. => false
  | .var .. => false
  | .un _ _ c => hasAddSubNode c
  | .bin _ o l r => o.isAddSub' || hasAddSubNode l || hasAddSubNode r

/-- `find_type(PowerExpression)`: the exponent operands of all power nodes, in-order -/
def powerExponents : Ex → List Ex
  | .const .. => []
  | .var .. => []
  | .un _ _ c => powerExponents c
  | .bin _ o l r => powerExponents l ++ (if o == .pow then [r] else []) ++ powerExponents r

/-- `filter_coefficients`: a constant counts as a coefficient unless its parent is a binary
operator other than multiplication (the node itself always counts) -/
def hasCoefficient (parentOk : Bool) : Ex → Bool
  | .const .. => parentOk
  | .var .. => false
  | .un _ _ c => hasCoefficient true c
  | .bin _ o l r => hasCoefficient (o == .mul) l || hasCoefficient (o == .mul) r

def insertSorted (c : Char) : List Char → List Char
  | [] => [c]
  | d :: ds => if c ≤ d then c :: d :: ds else d :: insertSorted c ds

def sortChars : List Char → List Char
  | [] => []
  | c :: cs => insertSorted c (sortChars cs)

/-- what `has_like_terms` / `terms_are_like` read off a `TermResult` -/
structure TermKey where
  vars : List Char
  exp : Option Rat
  deriving DecidableEq, Repr, Inhabited

/-- `get_term(node)` for a node whose parent is absent or an addition/subtraction (the only way
`has_like_terms` calls it); `none` is Python's `False` -/
def getTermKey (e : Ex) : Option TermKey :=
  match e with
  | .const .. => some ⟨[], none⟩
  | .var _ x => some ⟨[x], none⟩
  | _ =>
    if !e.isAddSub && hasAddSubNode e then none
    else if (match e.left? with | some l => hasAddNode l | none => false) &&
            (match e.right? with | some r => !r.isLeaf | none => false) then none
    else if (match e.right? with | some r => hasAddNode r | none => false) then none
    else
      let pws := powerExponents e
      let expo : Option (Option Rat) :=
        match pws with
        | [] => some none
        | [.const _ v] => some (some v)
        | _ => none
      match expo with
      | none => none
      | some ex =>
        let vs := sortChars e.vars
        if vs.isEmpty && !hasCoefficient true e && ex.isNone then none
        else some ⟨vs, ex⟩

/-- the children of every addition/subtraction node that are not themselves one, in-order -/
def sumChildren : Ex → List Ex
  | .const .. => []
  | .var .. => []
  | .un _ _ c => sumChildren c
  | .bin _ o l r =>
    sumChildren l ++
    (if o.isAddSub' then (if l.isAddSub then [] else [l]) ++ (if r.isAddSub then [] else [r]) else []) ++
    sumChildren r

/-- `get_terms(root)` -/
def getTerms (e : Ex) : List Ex :=
  let res := (if e.isOp .mul then [e] else []) ++ sumChildren e
  if res.isEmpty then [e] else res

def hasDup : List TermKey → Bool
  | [] => false
  | k :: ks => ks.contains k || hasDup ks

/-- constants whose parent is an addition or subtraction -/
def countFreeConsts : Ex → Nat
  | .const .. => 0
  | .var .. => 0
  | .un _ _ c => countFreeConsts c
  | .bin _ o l r =>
    countFreeConsts l + countFreeConsts r +
    (if o.isAddSub' then (if l.isConst then 1 else 0) + (if r.isConst then 1 else 0) else 0)

/-- `has_like_terms(root)` -/
def hasLikeTerms (e : Ex) : Bool :=
  hasDup ((getTerms e).filterMap getTermKey) || 2 ≤ countFreeConsts e

/-- `terms_are_like` on two term results -/
def termsAreLike (a b : TermKey) : Bool :=
  if a.vars.isEmpty && b.vars.isEmpty then true
  else a.vars.length == b.vars.length && sortChars a.vars == sortChars b.vars && a.exp == b.exp

end Mathy
