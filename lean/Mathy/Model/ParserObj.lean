/-
Model of the long-lived `ExpressionParser` object: its two caches and the token lists it hands
out.  Token lists are mutable Python lists, so they live in a heap of cells addressed by
references; `tokenize` returns a reference.  A client may afterwards pop from any list it was
handed (`consume`).
-/
import Mathy.Model.Parser
namespace Mathy

abbrev Ref := Nat

structure PState where
  /-- every list object ever created; a reference is an index -/
  heap : List (List Tok)
  /-- `_tokens_cache`: text ↦ reference of the cached list -/
  tokCache : List (List Char × Ref)
  /-- `_parse_cache`: text ↦ tree -/
  parseCache : List (List Char × Ex)
  deriving Repr, Inhabited

def PState.init : PState := ⟨[], [], []⟩

def lookup {α} (k : List Char) : List (List Char × α) → Option α
  | [] => none
  | (k', v) :: rest => if k' = k then some v else lookup k rest

def PState.alloc (st : PState) (l : List Tok) : PState × Ref :=
  ({ st with heap := st.heap ++ [l] }, st.heap.length)

inductive TokOut where
  | list (r : Ref)
  | badChar (c : Char)
  deriving DecidableEq, Repr, Inhabited

/-- `parser.tokenize(text)`: tokenizes on a cache miss (a tokenizer error leaves the cache
untouched), then returns a NEW list object holding a copy (`[:]`) of the cached list. -/
def PState.tokenizeOp (st : PState) (s : List Char) : PState × TokOut :=
  match lookup s st.tokCache with
  | some r =>
    let (st', r') := st.alloc (st.heap.getD r [])
    (st', .list r')
  | none =>
    match tokenize false s with
    | .error c => (st, .badChar c)
    | .ok ts =>
      let (st1, r) := st.alloc ts
      let st2 := { st1 with tokCache := (s, r) :: st1.tokCache }
      let (st3, r') := st2.alloc ts
      (st3, .list r')

/-- `parser.parse(text)`: cache hit returns the cached tree; otherwise `_parse` consumes the
list returned by `tokenize` (modelled by emptying that cell) and caches the tree on success. -/
def PState.parseOp (st : PState) (s : List Char) : PState × ParseOut :=
  match lookup s st.parseCache with
  | some e => (st, .tree e)
  | none =>
    match st.tokenizeOp s with
    | (st1, .badChar c) => (st1, .badChar c)
    | (st1, .list r) =>
      let ts := st1.heap.getD r []
      let st2 := { st1 with heap := st1.heap.set r [] }
      match parseToks ts with
      | .ok e => ({ st2 with parseCache := (s, e) :: st2.parseCache }, .tree e)
      | .error e => (st2, .perr e)

def PState.clearOp (st : PState) : PState := { st with tokCache := [], parseCache := [] }

/-- the client pops `n` tokens from the front of a list it holds -/
def PState.consumeOp (st : PState) (r : Ref) (n : Nat) : PState :=
  { st with heap := st.heap.set r ((st.heap.getD r []).drop n) }

inductive POp where
  | parse (s : List Char)
  | tokenize (s : List Char)
  | clear
  /-- pop `n` tokens from the list returned by the `i`-th earlier `tokenize` call -/
  | consume (i : Nat) (n : Nat)
  deriving DecidableEq, Repr, Inhabited

inductive POut where
  | parsed (o : ParseOut)
  | tokens (ts : List Tok)
  | badChar (c : Char)
  | unit
  deriving DecidableEq, Repr, Inhabited

/-- run a history; `handed` = references returned by earlier tokenize calls (oldest first) -/
def runOps : PState → List Ref → List POp → List POut
  | _, _, [] => []
  | st, handed, op :: ops =>
    match op with
    | .parse s =>
      let (st', o) := st.parseOp s
      .parsed o :: runOps st' handed ops
    | .tokenize s =>
      match st.tokenizeOp s with
      | (st', .list r) => .tokens (st'.heap.getD r []) :: runOps st' (handed ++ [r]) ops
      | (st', .badChar c) => .badChar c :: runOps st' handed ops
    | .clear => .unit :: runOps st.clearOp handed ops
    | .consume i n =>
      match handed[i]? with
      | some r => .unit :: runOps (st.consumeOp r n) handed ops
      | none => .unit :: runOps st handed ops

end Mathy
