/-
The documented grammar (mathy_core/parser.py docstring, parser.md) as derivation relations over
token lists, each derivation carrying the expression tree it prescribes.

Reading of the docstring, recorded here because the text is loose in three places:
 * `{ "^" }?` inside an optional group means a mandatory caret in that group;
 * `!` (factorial of a literal) is missing from the docstring but documented in parser.md;
 * `(ExpExp) = (UnaryExp) { "^" (UnaryExp) }?` overlaps with the caret inside `(Factor)`: an
   exponent after a run of factors binds to the last factor (so `-x^2` is `-(x^2)`); the caret of
   ExpExp therefore only follows a unary expression ending in a literal or `!`.
A minus directly before a literal makes a negative literal.
`*` and `/`: the derivations here build the tree the implementation builds — quotients group to
the left and a `*` takes everything to its right as its right operand (`a*b*c = a*(b*c)`,
`a/b*c = (a/b)*c`, `a*b/c = a*(b/c)`); `Props/C03.lean` proves this has the documented
left-to-right value.
-/
import Mathy.Model.Parser
namespace Mathy
namespace G

/-- left-nested product of a non-empty list of factors -/
def product : Ex → List Ex → Ex
  | f0, fs => fs.foldl (fun acc f => .bin 0 .mul acc f) f0

/-- the token list ends with a literal or a factorial sign -/
def endsClosed (ts : List Tok) : Bool :=
  match ts.getLast? with
  | some t => t.type == .constant || t.type == .factorial
  | none => false

/-- a literal: the token text is a valid number -/
def Lit (t : Tok) (q : Rat) : Prop := t.type = .constant ∧ parseNumber t.value = some q

mutual

/-- `(Variable) | (Function) "(" (AddExp) ")" | "(" (AddExp) ")"` -/
inductive Prim : List Tok → Ex → Prop
  | var (t : Tok) (h : t.type = .variable) : Prim [t] (.var 0 (t.value.headD 'x'))
  | fn (f o c : Tok) (hf : f.type = .function) (ho : o.type = .openParen) (hc : c.type = .closeParen)
      {ts : List Tok} {e : Ex} : AddE ts e → Prim (f :: o :: ts ++ [c]) (.un 0 .sgn e)
  | paren (o c : Tok) (ho : o.type = .openParen) (hc : c.type = .closeParen)
      {ts : List Tok} {e : Ex} : AddE ts e → Prim (o :: ts ++ [c]) e

/-- one or more primaries by juxtaposition; the list is in source order -/
inductive PrimSeq : List Tok → List Ex → Prop
  | one {ts : List Tok} {e : Ex} : Prim ts e → PrimSeq ts [e]
  | cons {ts ts' : List Tok} {e : Ex} {es : List Ex} :
      Prim ts e → PrimSeq ts' es → PrimSeq (ts ++ ts') (e :: es)

/-- `(Factor)`: a run of primaries, an optional exponent binding to the LAST one only -/
inductive Factors : List Tok → Ex → Prop
  | plain {ts : List Tok} {f0 : Ex} {fs : List Ex} : PrimSeq ts (f0 :: fs) → Factors ts (product f0 fs)
  | pow (x : Tok) (hx : x.type = .exponent) {ts us : List Tok} {init : List Ex} {last u f0 : Ex}
      {fs : List Ex} :
      PrimSeq ts (init ++ [last]) → UnaryE us u →
      init ++ [Ex.bin 0 .pow last u] = f0 :: fs →
      Factors (ts ++ x :: us) (product f0 fs)

/-- `(UnaryExp) = { "-" }? (FactorPrefix)` with literal factorial and negative literals -/
inductive UnaryE : List Tok → Ex → Prop
  | lit (c : Tok) (q : Rat) (h : Lit c q) : UnaryE [c] (.const 0 q)
  | negLit (m c : Tok) (q : Rat) (hm : m.type = .minus) (h : Lit c q) : UnaryE [m, c] (.const 0 (-q))
  | fact (c b : Tok) (q : Rat) (h : Lit c q) (hb : b.type = .factorial) :
      UnaryE [c, b] (.un 0 .fact (.const 0 q))
  | negFact (m c b : Tok) (q : Rat) (hm : m.type = .minus) (h : Lit c q) (hb : b.type = .factorial) :
      UnaryE [m, c, b] (.un 0 .fact (.const 0 (-q)))
  | litFactors (c : Tok) (q : Rat) (h : Lit c q) {fs : List Tok} {f : Ex} :
      Factors fs f → UnaryE (c :: fs) (.bin 0 .mul (.const 0 q) f)
  | negLitFactors (m c : Tok) (q : Rat) (hm : m.type = .minus) (h : Lit c q) {fs : List Tok} {f : Ex} :
      Factors fs f → UnaryE (m :: c :: fs) (.bin 0 .mul (.const 0 (-q)) f)
  | factors {fs : List Tok} {f : Ex} : Factors fs f → UnaryE fs f
  | negFactors (m : Tok) (hm : m.type = .minus) {fs : List Tok} {f : Ex} :
      Factors fs f → UnaryE (m :: fs) (.un 0 .neg f)

/-- `(ExpExp) = (UnaryExp) { "^" (UnaryExp) }?`.  The caret of ExpExp can only follow a unary
expression that could not take it itself, i.e. one whose last token is a literal or `!`
(`2^x`, `-2^2 = (-2)^2`, `3!^2`, `x^2^3 = (x^2)^3`); after a variable or a closing parenthesis
the caret belongs to the run of factors (`-x^2 = -(x^2)`, `x^y^2 = x^(y^2)`). -/
inductive ExpE : List Tok → Ex → Prop
  | unary {ts : List Tok} {e : Ex} : UnaryE ts e → ExpE ts e
  | pow (x : Tok) (hx : x.type = .exponent) {ts us : List Tok} {b u : Ex} :
      UnaryE ts b → endsClosed ts = true → UnaryE us u → ExpE (ts ++ x :: us) (.bin 0 .pow b u)

/-- `(MultExp)`: continue a product/quotient whose left operand `acc` is already built -/
inductive MultLoop : Ex → List Tok → Ex → Prop
  | done (acc : Ex) : MultLoop acc [] acc
  | div (d : Tok) (hd : d.type = .divide) {acc r e : Ex} {ts ts' : List Tok} :
      ExpE ts r → MultLoop (.bin 0 .div acc r) ts' e → MultLoop acc (d :: ts ++ ts') e
  | mul (m : Tok) (hm : m.type = .multiply) {acc r : Ex} {ts : List Tok} :
      MultE ts r → MultLoop acc (m :: ts) (.bin 0 .mul acc r)

inductive MultE : List Tok → Ex → Prop
  | mk {ts ts' : List Tok} {e0 e : Ex} : ExpE ts e0 → MultLoop e0 ts' e → MultE (ts ++ ts') e

/-- `(AddExp)`: sums and differences, left to right -/
inductive AddLoop : Ex → List Tok → Ex → Prop
  | done (acc : Ex) : AddLoop acc [] acc
  | plus (p : Tok) (hp : p.type = .plus) {acc r e : Ex} {ts ts' : List Tok} :
      MultE ts r → AddLoop (.bin 0 .add acc r) ts' e → AddLoop acc (p :: ts ++ ts') e
  | minus (p : Tok) (hp : p.type = .minus) {acc r e : Ex} {ts ts' : List Tok} :
      MultE ts r → AddLoop (.bin 0 .sub acc r) ts' e → AddLoop acc (p :: ts ++ ts') e

inductive AddE : List Tok → Ex → Prop
  | mk {ts ts' : List Tok} {e0 e : Ex} : MultE ts e0 → AddLoop e0 ts' e → AddE (ts ++ ts') e

end

/-- `(EqualExp)`: equations, left to right -/
inductive EqLoop : Ex → List Tok → Ex → Prop
  | done (acc : Ex) : EqLoop acc [] acc
  | eq (q : Tok) (hq : q.type = .equal) {acc r e : Ex} {ts ts' : List Tok} :
      AddE ts r → EqLoop (.bin 0 .eq acc r) ts' e → EqLoop acc (q :: ts ++ ts') e

inductive EqualE : List Tok → Ex → Prop
  | mk {ts ts' : List Tok} {e0 e : Ex} : AddE ts e0 → EqLoop e0 ts' e → EqualE (ts ++ ts') e

end G

/-- the end marker -/
def eofTok : Tok := ⟨.eof, []⟩

end Mathy
