/-
Line-protocol driver of the model: one request per line on stdin, one answer per line on stdout.
Run with `lake env lean --run Main.lean` or as the compiled `driver` executable.
-/
import Mathy.Model.Wire
import Mathy.Model.HeapOps
open Mathy

def withTree (toks : List String) (f : Ex → List String → String) : String :=
  match Ex.ofWire (toks.length + 1) toks with
  | some (t, rest) => f t rest
  | none => "bad-tree"

def withShape (toks : List String) (f : BT → String) : String :=
  match BT.ofWire (toks.length + 1) toks with
  | some (t, _) => f t
  | none => "bad-shape"

def answer (line : String) : String :=
  match (line.trimAscii.toString.splitOn " ").filter (· ≠ "") with
  | "apply" :: r :: i :: rest =>
    match Rule.ofName? r, i.toNat? with
    | some r, some i => withTree rest fun t _ =>
        match applyAt r t i with
        | .ok t' => s!"ok {t'.toWire}"
        | .error e => s!"err {e.name}"
    | _, _ => "bad-op"
  | "find" :: r :: rest =>
    match Rule.ofName? r with
    | some r => withTree rest fun t _ => " ".intercalate ("nodes" :: (findNodes r t).map toString)
    | none => "bad-op"
  | ["tok", pad, text] =>
    match textOfWire text with
    | some cs =>
      match tokenize (pad == "1") cs with
      | .ok ts => " ".intercalate ("toks" :: ts.map Tok.toWire)
      | .error c => s!"badchar {c.toNat}"
    | none => "bad-op"
  | ["parse", text] =>
    match textOfWire text with
    | some cs => (parseText cs).toWire
    | none => "bad-op"
  | "print" :: rest => withTree rest fun t _ =>
      " ".intercalate ("toks" :: (printRoot showRat t).map Tok.toWire)
  | "str" :: rest => withTree rest fun t _ => s!"text {textToWire (strChars showRat none t)}"
  | "reparse" :: rest => withTree rest fun t _ =>
      match parseToks (printRoot showRat t) with
      | .ok e => s!"ok {e.toWire}"
      | .error e => s!"perr {e.name}"
  | "hist" :: ops =>
    match ops.mapM POp.ofWire with
    | some ops => " ; ".intercalate ((runOps PState.init [] ops).map POut.toWire)
    | none => "bad-op"
  | "visit" :: ord :: stop :: rest => withShape rest fun t =>
      let stopF : Nat → Nat → Bool := match stop.toNat? with
        | some s => fun i _ => i == s
        | none => fun _ _ => false
      let (tr, st) := match ord with
        | "pre" => t.visitPre stopF 0
        | "in" => t.visitIn stopF 0
        | _ => t.visitPost stopF 0
      s!"trace {traceToWire tr} | {st}"
  | "findid" :: i :: rest => withShape rest fun t =>
      match i.toNat? with
      | some i =>
        let idx := match t.findIdIndex i with | some k => toString k | none => "none"
        let lst := " ".intercalate (t.toList.map toString)
        s!"found {idx} list {lst}"
      | none => "bad-op"
  | "rotate" :: i :: rest => withShape rest fun t =>
      match i.toNat? with
      | some i =>
        let shape := match t.pathOf i with
          | some p => t.rotateAt p
          | none => t
        let h := (Heap.ofCells (t.toCells none)).rotate i
        s!"shape {shape.toWire} cells {cellsToWire h t.ids}"
      | none => "bad-op"
  | "attach" :: q :: d :: rest =>
    -- attach <q> <L|R> <shape t> | <shape s> : q.set_side(root of s) on the heap of t and s
    let tw := rest.takeWhile (· ≠ "|")
    let sw := (rest.dropWhile (· ≠ "|")).drop 1
    match q.toNat?, BT.ofWire (tw.length + 1) tw, BT.ofWire (sw.length + 1) sw with
    | some q, some (t, _), some (s, _) =>
      let h := Heap.ofCells (t.toCells none ++ s.toCells none)
      let h' := h.setSide q s.rootId (if d == "L" then .L else .R)
      s!"cells {cellsToWire h' (t.ids ++ s.ids)}"
    | _, _, _ => "bad-op"
  | "layout" :: ux :: uy :: rep :: rest => withShape rest fun t =>
      match ratOfWire ux, ratOfWire uy with
      | some ux, some uy =>
        match (if rep == "1" then layoutTwice t ux uy else layout t ux uy) with
        | some st =>
          let b := bounds st
          s!"xs {ratsToWire st.x} | ys {ratsToWire st.y} | bounds {ratsToWire [b.1, b.2.1, b.2.2.1, b.2.2.2]}"
        | none => "loop-guard"
      | _, _ => "bad-op"
  | "pyeval" :: rest =>
    match PEx.ofWire (rest.length + 1) rest with
    | some (t, env) =>
      match pyEval (pyEnvOfWire env) t with
      | .ok v => v.toWire
      | .error e => s!"exc {e.name}"
    | none => "bad-tree"
  | "like" :: rest => withTree rest fun t _ => toString (hasLikeTerms t)
  | "subterms" :: rest => withTree rest fun t _ =>
      match getSubTerms t with
      | .raised => "raised"
      | .notTerms => "false"
      | .terms ts =>
        let tg : Option Ex → String := fun o => match o with | some e => toString e.tag | none => "0"
        "terms " ++ ";".intercalate (ts.map fun (c, v, e) => s!"{tg c},{tg v},{tg e}")
  | "termkey" :: rest => withTree rest fun t _ =>
      match getTermKey t with
      | some k => s!"key {String.ofList k.vars}| {match k.exp with | some e => ratToWire e | none => "-"}"
      | none => "false"
  | "flatproblem" :: grp :: first :: rest =>
    let group : Option (Nat × Nat) := match grp.splitOn "," with
      | [a, b] => match a.toNat?, b.toNat? with | some a, some b => some (a, b) | _, _ => none
      | _ => none
    let rec pairs : List String → Option (List (POpr × PItem))
      | [] => some []
      | o :: i :: more => match POpr.ofWire o, PItem.ofWire i, pairs more with
        | some o, some i, some ps => some ((o, i) :: ps)
        | _, _, _ => none
      | _ => none
    match PItem.ofWire first, pairs rest with
    | some f, some ps =>
      let p : FlatProblem := ⟨f, ps, group⟩
      s!"ok={p.ok} like={p.promisesLike} " ++ " ".intercalate ("toks" :: p.toks.map Tok.toWire)
    | _, _ => "bad-op"
  | ["binomial", a, b, c, d] =>
    match PItem.ofWire a, PItem.ofWire b, PItem.ofWire c, PItem.ofWire d with
    | some a, some b, some c, some d =>
      let p := BinomialProblem.timesBinomial a b c d
      s!"ok={p.ok} like=false " ++ " ".intercalate ("toks" :: p.toks.map Tok.toWire)
    | _, _, _, _ => "bad-op"
  | ["monomial", a, b, c] =>
    match PItem.ofWire a, PItem.ofWire b, PItem.ofWire c with
    | some a, some b, some c =>
      let p := BinomialProblem.timesMonomial a b c
      s!"ok={p.ok} like=false " ++ " ".intercalate ("toks" :: p.toks.map Tok.toWire)
    | _, _, _ => "bad-op"
  | "gen" :: name :: rest =>
    -- gen <generator> <params…> | <draws…>
    let params := (rest.takeWhile (· ≠ "|")).filterMap String.toNat?
    let draws := ((rest.dropWhile (· ≠ "|")).drop 1).filterMap String.toNat?
    let res : Option (FlatProblem × Nat) :=
      match name, params with
      | "combine", [a, b, e, p] => Gen.combineTermsInPlace a b (e == 1) (p == 1) draws
      | "haystack", [a, b, c, e, p] => Gen.commuteHaystack a b c (e == 1) (p == 1) draws
      | "blockers1", [n, pp] => Gen.moveAroundBlockersOne n (pp : Rat) draws
      | "blockers2", [n, pp] => Gen.moveAroundBlockersTwo n (pp : Rat) draws
      | "simplify", [nt, nl, ov, opc, pp, ovp, np, sp, svp, gp, na] =>
        let spec : Gen.OpSpec := match opc with
          | 1 => .fixed .plus | 2 => .fixed .minus | 3 => .fixed .times
          | 4 => .choice [.plus, .minus] | 5 => .choice [.plus, .times] | _ => .random
        Gen.simplifyMultipleTerms nt nl (ov == 1) spec (pp : Rat) (ovp : Rat) (np : Rat) (sp : Rat) (svp : Rat) (gp : Rat)
          (if na == 99 then none else some na) draws
      | _, _ => none
    let bres : Option (Option (BinomialProblem × Nat)) :=
      match name, params with
      | "binbin", [a, b, sv, pp, lp] => some (Gen.binomialTimesBinomial a b (sv == 1) (pp : Rat) (lp : Rat) draws)
      | "binmono", [a, b, sv, pp, lp] => some (Gen.binomialTimesMonomial a b (sv == 1) (pp : Rat) (lp : Rat) draws)
      | _, _ => none
    match bres with
    | some none => "none"
    | some (some (p, cx)) => s!"cx={cx} ok={p.ok} like=true " ++ " ".intercalate ("toks" :: p.toks.map Tok.toWire)
    | none =>
    match res with
    | none => "none"
    | some (p, cx) => s!"cx={cx} ok={p.ok} like={p.promisesLike} " ++ " ".intercalate ("toks" :: p.toks.map Tok.toWire)
  | "cloneheap" :: rest => withShape rest fun t =>
      let base := t.ids.foldl max 0 + 1
      match t.rootId with
      | some a =>
        let (h, r, next) := (Heap.ofCells (t.toCells none)).clone (t.depth + 1) a base
        s!"root {r} next {next} cells {cellsToWire h ((List.range (next - base)).map (· + base))} orig {cellsToWire h t.ids}"
      | none => "empty"
  | "eval" :: rest => withTree rest fun t env => (eval (envOfWire env) t).toWire
  | _ => "bad-op"

partial def loop (h : IO.FS.Stream) (out : IO.FS.Stream) : IO Unit := do
  let line ← h.getLine
  if line.isEmpty then return ()
  out.putStrLn (answer line)
  loop h out

def main : IO Unit := do
  let out ← IO.getStdout
  loop (← IO.getStdin) out
  out.flush
