import Mathy.Model.Expr
import Mathy.Model.Util
import Mathy.Model.Rules
import Mathy.Model.Wire
