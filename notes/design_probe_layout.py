import itertools, sys
from mathy_core.tree import BinaryTreeNode
from mathy_core.layout import TreeLayout
# enumerate shapes: None or (l, r)
from functools import lru_cache
@lru_cache(None)
def shapes(n):
    if n==0: return [None]
    out=[]
    for k in range(n):
        for l in shapes(k):
            for r in shapes(n-1-k):
                out.append((l,r))
    return out
def build(s):
    if s is None: return None
    n=BinaryTreeNode(); 
    l=build(s[0]); r=build(s[1])
    n.set_left(l); n.set_right(r)
    return n
def mirror(s):
    return None if s is None else (mirror(s[1]), mirror(s[0]))
def coords(root):
    out=[]
    def rec(n,d,path):
        if n is None: return
        out.append((path,d,n.x,n.y))
        rec(n.left,d+1,path+'L'); rec(n.right,d+1,path+'R')
    rec(root,0,''); return out
def check(s, ux=1.0, uy=1.0):
    root=build(s); m=TreeLayout().layout(root,ux,uy)
    c=coords(root); probs=[]
    byd={}
    pos={p:(x,y) for p,d,x,y in c}
    for p,d,x,y in c:
        if y!=d*uy: probs.append('y')
        byd.setdefault(d,[]).append((p,x))
        if p+'L' in pos and not pos[p+'L'][0]<x: probs.append('left child not left')
        if p+'R' in pos and not pos[p+'R'][0]>x: probs.append('right child not right')
        if p+'L' in pos and p+'R' in pos and abs((pos[p+'L'][0]+pos[p+'R'][0])/2 - x)>1e-9: probs.append('not centred')
    for d,l in byd.items():
        # left-to-right order = order by path lexicographic (L<R)
        l.sort(key=lambda t:t[0])
        for (p1,x1),(p2,x2) in zip(l,l[1:]):
            if not x2-x1>=ux-1e-9: probs.append(f'sep {p1} {p2} {x1} {x2}')
    xs=[x for _,_,x,_ in c]; ys=[y for _,_,_,y in c]
    if (m.minX,m.maxX,m.minY,m.maxY)!=(min(xs),max(xs),min(ys),max(ys)): probs.append('bounds')
    # repeat
    c1=[(p,x,y) for p,d,x,y in c]
    TreeLayout().layout(root,ux,uy); c2=[(p,x,y) for p,d,x,y in coords(root)]
    if c1!=c2: probs.append('repeat differs')
    # mirror
    mr=build(mirror(s)); TreeLayout().layout(mr,ux,uy)
    cm={p.translate(str.maketrans('LR','RL')):(x,y) for p,d,x,y in coords(mr)}
    for p,x,y in c1:
        if abs(cm[p][0]+x)>1e-9 or cm[p][1]!=y: probs.append('mirror'); break
    return probs
import collections
N=int(sys.argv[1])
stat=collections.Counter(); ex={}
for n in range(1,N+1):
    for s in shapes(n):
        for pr in set(x.split()[0] if x.startswith('sep') else x for x in check(s)):
            stat[(n,pr)]+=1; ex.setdefault(pr,(n,s))
    print(n,len(shapes(n)),{k[1]:v for k,v in stat.items() if k[0]==n})
for k,v in ex.items(): print(k,v)
