import random, collections, sys
from design_probe_rules import *
rnd = random.Random(int(sys.argv[1]) if len(sys.argv)>1 else 0)
CONSTS=["0","1","2","3","4","6","-1","-2","0.5","2.5","-0.5","12"]
def atom():
    r=rnd.random()
    if r<0.35: return rnd.choice(CONSTS)
    if r<0.6: return rnd.choice("xyz")
    if r<0.8: return rnd.choice(["2","3","-1","0.5","4",""])+rnd.choice("xyz")+rnd.choice(["","^2","^3","^0","^-1","^x",""])
    return rnd.choice(CONSTS)
def expr(d):
    if d==0 or rnd.random()<0.25: return atom()
    r=rnd.random()
    op=rnd.choice(["+","+","-","*","*","/","^"])
    a=expr(d-1); b=expr(d-1)
    if rnd.random()<0.5: a="("+a+")"
    if rnd.random()<0.5: b="("+b+")"
    if rnd.random()<0.1: a="-"+a if not a.startswith("-") else a
    if op=="^": return f"{a}^{b}" if not b.startswith('-') else f"{a}^({b})"
    return f"{a} {op} {b}"
out=collections.defaultdict(list)
N=int(sys.argv[2]) if len(sys.argv)>2 else 3000
for i in range(N):
    s=expr(rnd.choice([1,2,2,3]))
    if rnd.random()<0.3: s=s+" = "+expr(rnd.choice([0,1,2]))
    check_text(s,out)
for k,v in out.items():
    print("==",k,len(v))
    byrule=collections.Counter(x[2] for x in v); print("   ",dict(byrule))
    seen=collections.Counter()
    for x in sorted(v,key=lambda x:len(x[0])):
        if seen[x[2]]<8: seen[x[2]]+=1; print("   ",x)
