import Sp.Parser

set_option maxHeartbeats 400000
/-- fuel monotonicity, all seven functions at once -/
theorem fuel_mono (n : Nat) :
    (∀ ts r, parseAdd n ts = .ok r → parseAdd (n+1) ts = .ok r) ∧
    (∀ e ts r, parseAddLoop n e ts = .ok r → parseAddLoop (n+1) e ts = .ok r) ∧
    (∀ ts r, parseMult n ts = .ok r → parseMult (n+1) ts = .ok r) ∧
    (∀ ts r, parseExp n ts = .ok r → parseExp (n+1) ts = .ok r) ∧
    (∀ ts r, parseUnary n ts = .ok r → parseUnary (n+1) ts = .ok r) ∧
    (∀ ts r, parseFactors n ts = .ok r → parseFactors (n+1) ts = .ok r) ∧
    (∀ acc ts r, parseFactorList n acc ts = .ok r → parseFactorList (n+1) acc ts = .ok r) := by
  induction n with
  | zero => simp [parseAdd, parseAddLoop, parseMult, parseExp, parseUnary, parseFactors, parseFactorList]
  | succ n ih =>
    obtain ⟨hA, hAL, hM, hE, hU, hF, hFL⟩ := ih
    refine ⟨?_, ?_, ?_, ?_, ?_, ?_, ?_⟩
    · intro ts r h
      rw [parseAdd] at h ⊢
      simp only [bind, Except.bind, pure, Except.pure, throw, throwThe, MonadExceptOf.throw] at h ⊢
      split at h <;> try contradiction
      cases hm : parseMult n ts with
      | error e => simp [hm] at h
      | ok v => 
        simp [hm] at h
        rw [hM _ _ hm]; simp
        exact hAL _ _ _ h
    all_goals sorry
