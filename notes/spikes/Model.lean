-- import-free model spike
inductive Expr where
  | const : Rat → Expr
  | var : String → Expr
  | add : Expr → Expr → Expr
  | sub : Expr → Expr → Expr
  | mul : Expr → Expr → Expr
  | div : Expr → Expr → Expr
  | pow : Expr → Expr → Expr
  | neg : Expr → Expr
  | eq : Expr → Expr → Expr
  deriving Repr, DecidableEq, Inhabited

abbrev Env := String → Option Rat

def ipow (b : Rat) (e : Rat) : Option Rat :=
  if e.den = 1 then
    if 0 ≤ e.num then some (b ^ e.num.toNat)
    else if b = 0 then none else some ((b ^ (-e.num).toNat)⁻¹)
  else none

def Expr.eval (env : Env) : Expr → Option Rat
  | .const c => some c
  | .var v => env v
  | .add a b => do let x ← a.eval env; let y ← b.eval env; pure (x + y)
  | .sub a b => do let x ← a.eval env; let y ← b.eval env; pure (x - y)
  | .mul a b => do let x ← a.eval env; let y ← b.eval env; pure (x * y)
  | .div a b => do let x ← a.eval env; let y ← b.eval env; if y = 0 then none else pure (x / y)
  | .pow a b => do let x ← a.eval env; let y ← b.eval env; ipow x y
  | .neg a => do let x ← a.eval env; pure (-x)
  | .eq a b => do let x ← a.eval env; let y ← b.eval env; if x = y then pure x else none

inductive Dir | L | R deriving Repr, DecidableEq

def Expr.get? : Expr → List Dir → Option Expr
  | e, [] => some e
  | .add a _, .L :: p | .sub a _, .L :: p | .mul a _, .L :: p | .div a _, .L :: p | .pow a _, .L :: p | .eq a _, .L :: p => a.get? p
  | .add _ b, .R :: p | .sub _ b, .R :: p | .mul _ b, .R :: p | .div _ b, .R :: p | .pow _ b, .R :: p | .eq _ b, .R :: p => b.get? p
  | .neg a, .R :: p => a.get? p
  | _, _ => none

def Expr.set : Expr → List Dir → Expr → Expr
  | _, [], n => n
  | .add a b, .L :: p, n => .add (a.set p n) b
  | .add a b, .R :: p, n => .add a (b.set p n)
  | .sub a b, .L :: p, n => .sub (a.set p n) b
  | .sub a b, .R :: p, n => .sub a (b.set p n)
  | .mul a b, .L :: p, n => .mul (a.set p n) b
  | .mul a b, .R :: p, n => .mul a (b.set p n)
  | .div a b, .L :: p, n => .div (a.set p n) b
  | .div a b, .R :: p, n => .div a (b.set p n)
  | .pow a b, .L :: p, n => .pow (a.set p n) b
  | .pow a b, .R :: p, n => .pow a (b.set p n)
  | .eq a b, .L :: p, n => .eq (a.set p n) b
  | .eq a b, .R :: p, n => .eq a (b.set p n)
  | .neg a, .R :: p, n => .neg (a.set p n)
  | e, _, _ => e

-- distributive multiply (local rewrite)
def distMul : Expr → Option Expr
  | .mul (.add b c) a => some (.add (.mul a b) (.mul a c))
  | .mul a (.add b c) => some (.add (.mul a b) (.mul a c))
  | _ => none

-- multiplicative inverse
def mulInv : Expr → Option Expr
  | .div a (.neg c) => some (.mul a (.div (.const (-1)) c))
  | .div a b => some (.mul a (.div (.const 1) b))
  | _ => none

#eval (Expr.mul (.const 2) (.add (.var "x") (.const 3))).eval (fun _ => some 5)
