import Sp.Model
import Mathlib.Tactic.Ring
import Mathlib.Tactic.FieldSimp
import Mathlib.Algebra.Order.Field.Rat

theorem distMul_sound (e e' : Expr) (env : Env) (h : distMul e = some e')
    (v v' : Rat) (hv : e.eval env = some v) (hv' : e'.eval env = some v') : v = v' := by
  unfold distMul at h
  split at h <;> simp at h <;> subst h <;>
    simp [Expr.eval, Option.bind_eq_some_iff] at hv hv'
  · obtain ⟨b, hb, c, hc, a, ha, rfl⟩ := hv
    obtain ⟨a', ha', b', hb', a'', ha'', c', hc', rfl⟩ := hv'
    simp_all; ring
  · obtain ⟨a, ha, b, hb, c, hc, rfl⟩ := hv
    obtain ⟨a', ha', b', hb', a'', ha'', c', hc', rfl⟩ := hv'
    simp_all; ring

theorem distMul_sound' (e e' : Expr) (env : Env) (h : distMul e = some e')
    (v v' : Rat) (hv : e.eval env = some v) (hv' : e'.eval env = some v') : v = v' := by
  unfold distMul at h
  split at h <;> simp at h <;> subst h <;>
    simp [Expr.eval, Option.bind_eq_some_iff] at hv hv' <;> grind

theorem mulInv_sound (e e' : Expr) (env : Env) (h : mulInv e = some e')
    (v v' : Rat) (hv : e.eval env = some v) (hv' : e'.eval env = some v') : v = v' := by
  unfold mulInv at h
  split at h <;> simp at h <;> subst h <;>
    simp [Expr.eval, Option.bind_eq_some_iff] at hv hv'
  · obtain ⟨a, ha, c, hc, hz, rfl⟩ := hv
    obtain ⟨a', ha', c', hc', hz', rfl⟩ := hv'
    simp_all
    field_simp
  · obtain ⟨a, ha, c, hc, hz, rfl⟩ := hv
    obtain ⟨a', ha', c', hc', hz', rfl⟩ := hv'
    simp_all
    field_simp

-- congruence: replacing a subterm by an equivalent one
theorem set_sound (t : Expr) (p : List Dir) (s s' : Expr) (env : Env)
    (hget : t.get? p = some s)
    (hloc : ∀ v v', s.eval env = some v → s'.eval env = some v' → v = v')
    (v v' : Rat) (hv : t.eval env = some v) (hv' : (t.set p s').eval env = some v') : v = v' := by
  induction p generalizing t v v' with
  | nil => simp [Expr.get?] at hget; subst hget; exact hloc v v' hv (by simpa [Expr.set] using hv')
  | cons d p ih =>
    cases t <;> cases d <;> simp [Expr.get?] at hget <;>
      simp [Expr.set, Expr.eval, Option.bind_eq_some_iff] at hv hv' <;> grind
#print axioms set_sound
#print axioms mulInv_sound
