-- spike: pointer-level rotate refines functional rotate
structure Cell where
  left : Option Nat
  right : Option Nat
  parent : Option Nat
  deriving DecidableEq, Repr

abbrev Heap := Nat → Cell

def upd (h : Heap) (k : Nat) (c : Cell) : Heap := fun i => if i = k then c else h i

@[simp] theorem upd_same (h : Heap) (k c) : upd h k c k = c := by simp [upd]
@[simp] theorem upd_other (h : Heap) (k c i) (hne : i ≠ k) : upd h k c i = h i := by simp [upd, hne]

/-- python `set_left(child)` (no clear flag) -/
def setLeft (h : Heap) (n : Nat) (c : Option Nat) : Heap :=
  let h1 := upd h n { h n with left := c }
  match c with
  | some k => upd h1 k { h1 k with parent := some n }
  | none => h1
def setRight (h : Heap) (n : Nat) (c : Option Nat) : Heap :=
  let h1 := upd h n { h n with right := c }
  match c with
  | some k => upd h1 k { h1 k with parent := some n }
  | none => h1

/-- literal transcription of BinaryTreeNode.rotate -/
def rotate (h : Heap) (n : Nat) : Heap :=
  match (h n).parent with
  | none => h
  | some p =>
    let g := (h p).parent
    let h1 :=
      if (h p).left = some n then
        let a := setLeft h p (h n).right
        let b := upd a n { a n with right := some p }
        upd b p { b p with parent := some n }
      else
        let a := setRight h p (h n).left
        let b := upd a n { a n with left := some p }
        upd b p { b p with parent := some n }
    let h2 := upd h1 n { h1 n with parent := g }
    match g with
    | none => h2
    | some gp =>
      if (h2 gp).left = some p then upd h2 gp { h2 gp with left := some n }
      else upd h2 gp { h2 gp with right := some n }

inductive Tr where
  | nil
  | node (id : Nat) (l r : Tr)
  deriving Repr, DecidableEq

def Tr.root? : Tr → Option Nat | .nil => none | .node i _ _ => some i
def Tr.ids : Tr → List Nat | .nil => [] | .node i l r => l.ids ++ i :: r.ids   -- in-order

/-- heap `h` lays out tree `t` whose root has parent `par` -/
def Rep (h : Heap) : Tr → Option Nat → Prop
  | .nil, _ => True
  | .node i l r, par => h i = ⟨l.root?, r.root?, par⟩ ∧ Rep h l (some i) ∧ Rep h r (some i)

theorem rep_frame (h h' : Heap) (t : Tr) (par) (hag : ∀ i ∈ t.ids, h' i = h i) (hr : Rep h t par) : Rep h' t par := by
  induction t generalizing par with
  | nil => trivial
  | node i l r ihl ihr =>
    obtain ⟨h1, h2, h3⟩ := hr
    refine ⟨?_, ihl _ (fun j hj => hag j (by simp [Tr.ids, hj])) h2, ihr _ (fun j hj => hag j (by simp [Tr.ids, hj])) h3⟩
    rw [hag i (by simp [Tr.ids])]; exact h1

/-- changing only the parent field of the root of `t` -/
theorem rep_reparent (h : Heap) (t : Tr) (par par' : Option Nat) (hn : t.ids.Nodup) (hr : Rep h t par) :
    match t with
    | .nil => True
    | .node i _ _ => Rep (upd h i { h i with parent := par' }) t par' := by
  cases t with
  | nil => trivial
  | node i l r =>
    obtain ⟨h1, h2, h3⟩ := hr
    simp [Tr.ids, List.nodup_append] at hn
    refine ⟨by simp [h1], ?_, ?_⟩
    · apply rep_frame h _ l _ _ h2
      intro j hj; apply upd_other; rintro rfl; exact (hn.2.2 j hj).1 rfl
    · apply rep_frame h _ r _ _ h3
      intro j hj; apply upd_other; rintro rfl; exact hn.2.1.1 hj

/-- `Rep` only reads the cells of `t.ids` -/
theorem rep_upd_other (h : Heap) (t : Tr) (par) (k : Nat) (c : Cell) (hk : k ∉ t.ids) (hr : Rep h t par) :
    Rep (upd h k c) t par :=
  rep_frame h _ t par (fun j hj => upd_other _ _ _ _ (by rintro rfl; exact hk hj)) hr

/-- right rotation at the root of a (sub)tree: node `n` is the left child of `p`, no grandparent -/
theorem rotate_left_child_local (h : Heap) (p n : Nat) (a b c : Tr)
    (hn : (Tr.node p (.node n a b) c).ids.Nodup)
    (hr : Rep h (.node p (.node n a b) c) none) :
    Rep (rotate h n) (.node n a (.node p b c)) none := by
  obtain ⟨hp, ⟨hnn, ha, hb⟩, hc⟩ := hr
  simp [Tr.ids, List.nodup_append] at hn
  have hpn : p ≠ n := by grind
  have hnp : n ≠ p := Ne.symm hpn
  cases b with
  | nil =>
    unfold rotate
    simp [hnn, hp, Tr.root?, setLeft, hnp, hpn, Rep]
    refine ⟨?_, ?_⟩
    · apply rep_upd_other; grind
      apply rep_upd_other; grind
      apply rep_upd_other; grind
      apply rep_upd_other; grind
      exact ha
    · apply rep_upd_other; grind
      apply rep_upd_other; grind
      apply rep_upd_other; grind
      apply rep_upd_other; grind
      exact hc
  | node bi bl br =>
    obtain ⟨hbi, hbl, hbr⟩ := hb
    have : bi ≠ n := by grind [Tr.ids]
    have : bi ≠ p := by grind [Tr.ids]
    unfold rotate
    simp [hnn, hp, Tr.root?, setLeft, hnp, hpn, Rep, *]
    sorry
