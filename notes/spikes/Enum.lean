inductive Sh | nil | node (l r : Sh) deriving Repr, DecidableEq

def shapes : Nat → List Sh
  | 0 => [.nil]
  | n+1 => (List.range (n+1)).attach.flatMap fun ⟨k, hk⟩ =>
      have : k < n+1 := List.mem_range.mp hk
      have : n - k < n+1 := by omega
      (shapes k).flatMap fun l => (shapes (n-k)).map fun r => Sh.node l r
termination_by n => n

-- fuel-free structural version for kernel: build by levels
def shapesUpTo : Nat → List (List Sh)   -- result[i] = shapes with i nodes, i ≤ n  (reversed index order)
  | 0 => [[.nil]]
  | n+1 =>
    let prev := shapesUpTo n           -- prev has n+1 entries: sizes n, n-1, ..., 0
    let arr := prev.reverse            -- index k = size k
    let new := (List.range (n+1)).flatMap fun k =>
      (arr.getD k []).flatMap fun l => (arr.getD (n-k) []).map fun r => Sh.node l r
    new :: prev

def Sh.size : Sh → Nat | .nil => 0 | .node l r => l.size + r.size + 1
-- a mock "layout-like" computation: returns list of (depth, x) with Int arithmetic
def Sh.place : Sh → Int → Int → List (Int × Int)
  | .nil, _, _ => []
  | .node l r, d, x => (d, x) :: (l.place (d+1) (x - (r.size + 1))) ++ (r.place (d+1) (x + (l.size + 1)))
def okShape (s : Sh) : Bool := (s.place 0 0).all fun (d, x) => d ≥ 0 && x ≤ 100 && x ≥ -100
def checkAll (n : Nat) : Bool := (shapesUpTo n).all fun ss => ss.all okShape
#eval (shapesUpTo 9).map List.length
theorem all8 : checkAll 8 = true := by decide +kernel
theorem all10 : checkAll 10 = true := by decide +kernel
#print axioms all10
