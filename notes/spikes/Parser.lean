import Sp.Model
-- token model (padding excluded)
inductive Tok where
  | const (s : Rat) | var (c : Char) | plus | minus | mul | div | pow | fact | lp | rp | func (n : String) | eq | eof
  deriving Repr, DecidableEq, Inhabited

inductive PErr where
  | invalidExpression | outOfTokens | invalidSyntax | unexpectedBehavior | trailingTokens
  deriving Repr, DecidableEq

inductive E where
  | const : Rat → E | var : Char → E
  | add : E → E → E | sub : E → E → E | mul : E → E → E | div : E → E → E | pow : E → E → E | eq : E → E → E
  | neg : E → E | fact : E → E | fn : String → E → E
  deriving Repr, DecidableEq, Inhabited

abbrev P := Except PErr (E × List Tok)

def Tok.firstFactor : Tok → Bool | .func _ | .var _ | .lp | .fact => true | _ => false
def Tok.firstFactorPrefix (t : Tok) : Bool := t.firstFactor || (match t with | .const _ => true | _ => false)
def Tok.firstUnary (t : Tok) : Bool := t.firstFactorPrefix || t == .minus

def hd (ts : List Tok) : Tok := ts.headD .eof
-- `next`: dropping the current token; python raises OutOfTokens when current is EOF
def adv : List Tok → Except PErr (List Tok)
  | [] => .error .outOfTokens
  | .eof :: _ => .error .outOfTokens
  | _ :: ts => .ok ts
def eat (t : Tok) (ts : List Tok) : Except PErr (List Tok) :=
  if hd ts = t then adv ts else .error .invalidSyntax

def mulAll : E → List E → E
  | e, [] => e
  | e, f :: fs => mulAll (.mul e f) fs

mutual
def parseAdd : Nat → List Tok → P
  | 0, _ => .error .outOfTokens
  | n+1, ts => do
    if !(hd ts).firstUnary then throw .invalidSyntax
    let (e, ts) ← parseMult n ts
    parseAddLoop n e ts
def parseAddLoop : Nat → E → List Tok → P
  | 0, _, _ => .error .outOfTokens
  | n+1, e, ts =>
    match hd ts with
    | .plus => do
      let ts ← adv ts
      if !(hd ts).firstUnary then throw .unexpectedBehavior
      let (r, ts) ← parseMult n ts
      parseAddLoop n (.add e r) ts
    | .minus => do
      let ts ← adv ts
      if !(hd ts).firstUnary then throw .unexpectedBehavior
      let (r, ts) ← parseMult n ts
      parseAddLoop n (.sub e r) ts
    | _ => pure (e, ts)
def parseMult : Nat → List Tok → P
  | 0, _ => .error .outOfTokens
  | n+1, ts => do
    if !(hd ts).firstUnary then throw .invalidSyntax
    let (e, ts) ← parseExp n ts
    match hd ts with
    | .mul => do
      let ts ← adv ts
      if !(hd ts).firstUnary then throw .invalidSyntax
      let (r, ts) ← parseMult n ts
      pure (.mul e r, ts)      -- NB python loops, but after the recursive call no * or / can remain
    | .div => do
      let ts ← adv ts
      if !(hd ts).firstUnary then throw .invalidSyntax
      let (r, ts) ← parseMult n ts
      pure (.div e r, ts)
    | _ => pure (e, ts)
def parseExp : Nat → List Tok → P
  | 0, _ => .error .outOfTokens
  | n+1, ts => do
    if !(hd ts).firstUnary then throw .invalidSyntax
    let (e, ts) ← parseUnary n ts
    if hd ts = .pow then do
      let ts ← adv ts
      if !(hd ts).firstUnary then throw .invalidSyntax
      let (r, ts) ← parseUnary n ts
      pure (.pow e r, ts)
    else pure (e, ts)
def parseUnary : Nat → List Tok → P
  | 0, _ => .error .outOfTokens
  | n+1, ts => do
    let (negate, ts) ← (if hd ts = .minus then do let ts ← adv ts; pure (true, ts) else pure (false, ts) : Except PErr (Bool × List Tok))
    if !(hd ts).firstFactorPrefix then throw .invalidSyntax
    match hd ts with
    | .const c => do
      let ts ← adv ts
      let c := if negate then -c else c
      if (hd ts).firstFactor then
        if hd ts = .fact then do
          let ts ← adv ts
          pure (.fact (.const c), ts)
        else do
          let (f, ts) ← parseFactors n ts
          pure (.mul (.const c) f, ts)
      else pure (.const c, ts)
    | _ => do
      let (f, ts) ← parseFactors n ts
      pure (if negate then .neg f else f, ts)
def parseFactors : Nat → List Tok → P
  | 0, _ => .error .outOfTokens
  | n+1, ts => do
    let (fs, ts) ← parseFactorList n [] ts
    match fs with
    | [] => throw .invalidExpression
    | f0 :: frest =>
      if hd ts = .pow then do
        let ts ← adv ts
        if !(hd ts).firstUnary then throw .invalidSyntax
        let (r, ts) ← parseUnary n ts
        let last := (f0 :: frest).getLast!
        let p := E.pow last r
        -- python: if one factor: return p ; else: exp = p; then multiply ALL factors (bug: last duplicated)
        if frest.isEmpty then pure (p, ts) else pure (mulAll p (f0 :: frest), ts)
      else
        pure (mulAll f0 frest, ts)
def parseFactorList : Nat → List E → List Tok → Except PErr (List E × List Tok)
  | 0, _, _ => .error .outOfTokens
  | n+1, acc, ts => do
    let (f, ts) ← (match hd ts with
      | .var c => do let ts ← adv ts; pure (E.var c, ts)
      | .func name => do
          let ts ← adv ts
          let ts ← eat .lp ts
          let (e, ts) ← parseAdd n ts
          let ts ← eat .rp ts
          pure (E.fn name e, ts)
      | .lp => do
          let ts ← adv ts
          let (e, ts) ← parseAdd n ts
          let ts ← eat .rp ts
          pure (e, ts)
      | _ => throw .unexpectedBehavior : P)
    if (hd ts).firstFactor then parseFactorList n (acc ++ [f]) ts else pure (acc ++ [f], ts)
end

def parseEqualLoop : Nat → Nat → E → List Tok → P
  | 0, _, _, _ => .error .outOfTokens
  | k+1, n, e, ts =>
    if hd ts = .eq then do
      let ts ← adv ts
      if !(hd ts).firstUnary then throw .unexpectedBehavior
      let (r, ts) ← parseAdd n ts
      parseEqualLoop k n (.eq e r) ts
    else pure (e, ts)

def parseToks (ts : List Tok) : Except PErr E := do
  let n := 8 * ts.length + 8
  match ts with
  | [] => throw .outOfTokens
  | .eof :: _ => throw .invalidExpression
  | _ => 
    let (e, rest) ← (do
      if !(hd ts).firstUnary then throw .invalidSyntax
      let (e, ts) ← parseAdd n ts
      parseEqualLoop n n e ts : P)
    if hd rest = .eof then pure e else throw .trailingTokens

open Tok in
#eval parseToks [var 'x', var 'y', pow, const 2, eof]
open Tok in
#eval parseToks [const 8, div, const 4, div, const 2, eof]
open Tok in
#eval parseToks [minus, var 'x', pow, const 2, plus, lp, const 3, rp, var 'y', eof]
open Tok in
#eval parseToks [const 2, pow, const 3, pow, const 2, eof]
