import itertools, sys, collections
from fractions import Fraction
from mathy_core.expressions import *
from mathy_core.parser import ExpressionParser
from design_probe_rules import holds, ENVS, Undef
LEAVES=[lambda:ConstantExpression(2),lambda:ConstantExpression(-3),lambda:ConstantExpression(0.5),lambda:VariableExpression('x'),lambda:VariableExpression('y')]
BIN=[AddExpression,SubtractExpression,MultiplyExpression,DivideExpression,PowerExpression]
UN=[NegateExpression, lambda c: SgnExpression(c)]
def trees(n):
    # n = number of nodes
    if n==1:
        for l in LEAVES: yield l
        return
    for u in UN:
        for c in trees(n-1):
            yield (lambda u=u,c=c: u(c()))
    # factorial only of constants
    if n==2:
        yield lambda: FactorialExpression(ConstantExpression(3))
    for k in range(1,n-1):
        for a in trees(k):
            for b in trees(n-1-k):
                for B in BIN:
                    yield (lambda B=B,a=a,b=b: B(a(),b()))
def sig(n):
    if n is None: return None
    if isinstance(n, ConstantExpression): return ('c', n.value)
    if isinstance(n, VariableExpression): return ('v', n.identifier)
    return (type(n).__name__, sig(n.left), sig(n.right))
N=int(sys.argv[1])
fails=collections.Counter(); ex={}
tot=0
for n in range(1,N+1):
    for mk in trees(n):
        t=mk(); tot+=1
        s=str(t)
        try: r=ExpressionParser().parse(s)
        except Exception as e:
            k=('parse-fail',type(e).__name__); fails[k]+=1; ex.setdefault(k,[]).append(s); continue
        ok=True
        for env in ENVS:
            d1,t1,v1=holds(t,env); d2,t2,v2=holds(r,env)
            if d1!=d2 or (d1 and v1!=v2): ok=False;break
        if not ok:
            # classify by top two kinds
            k=('value',); fails[k]+=1; ex.setdefault(k,[]).append((s,str(r),sig(t)))
print("trees",tot,dict(fails))
for k,v in ex.items():
    for x in v[:25]: print(k,x)
