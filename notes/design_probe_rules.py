import sys, itertools, random, traceback, collections
from fractions import Fraction
from mathy_core import *
from mathy_core.rules import *
from mathy_core.expressions import *

P = ExpressionParser()
RULES = [("AS",AssociativeSwapRule()),("CS",CommutativeSwapRule()),("CSnp",CommutativeSwapRule(preferred=False)),
 ("CA",ConstantsSimplifyRule()),("DF",DistributiveFactorOutRule()),("DFc",DistributiveFactorOutRule(constants=True)),
 ("DM",DistributiveMultiplyRule()),("MI",MultiplicativeInverseRule()),("RS",RestateSubtractionRule()),("VM",VariableMultiplyRule()),("BM",BalancedMoveRule())]

class Undef(Exception): pass
def toF(v):
    import numpy as np
    if isinstance(v,(int,)) : return Fraction(v)
    if isinstance(v, float):
        if v!=v or v in (float('inf'),float('-inf')): raise Undef()
        return Fraction(v)
    if isinstance(v,(np.integer,)): return Fraction(int(v))
    if isinstance(v,(np.floating,)): return toF(float(v))
    raise Undef()
def ev(n, env):
    if isinstance(n, ConstantExpression): return toF(n.value)
    if isinstance(n, VariableExpression): return env[n.identifier]
    if isinstance(n, UnaryExpression):
        c = n.get_child()
        if c is None: raise Undef()
        v = ev(c, env)
        if isinstance(n, NegateExpression): return -v
        if isinstance(n, SgnExpression): return Fraction((v>0)-(v<0))
        if isinstance(n, FactorialExpression):
            if v.denominator!=1 or v<0: raise Undef()
            import math; return Fraction(math.factorial(int(v)))
        raise Undef()
    l = ev(n.left, env); r = ev(n.right, env)
    if isinstance(n, AddExpression): return l+r
    if isinstance(n, SubtractExpression): return l-r
    if isinstance(n, MultiplyExpression): return l*r
    if isinstance(n, DivideExpression):
        if r==0: raise Undef()
        return l/r
    if isinstance(n, PowerExpression):
        if r.denominator!=1: raise Undef()
        if l==0 and r<0: raise Undef()
        if abs(r)>64: raise Undef()
        return l**int(r)
    if isinstance(n, EqualExpression):
        return ('eq', l==r) if not isinstance(l,tuple) and not isinstance(r,tuple) else ('eq', (l[1] if isinstance(l,tuple) else True) and (r[1] if isinstance(r,tuple) else True) and ( (l[2] if isinstance(l,tuple) else l) == (r[2] if isinstance(r,tuple) else r)))
    raise Undef()

def holds(n, env):
    """equation semantics: returns (defined, truth) ; for chains a=b=c : all equal"""
    if isinstance(n, EqualExpression):
        dl, tl, vl = holds(n.left, env); dr, tr, vr = holds(n.right, env)
        return (dl and dr, tl and tr and vl==vr, vl)
    try:
        v = ev(n, env); return (True, True, v)
    except Undef:
        return (False, True, None)
    
def sig(n):
    if n is None: return None
    if isinstance(n, ConstantExpression): return ('c', n.value)
    if isinstance(n, VariableExpression): return ('v', n.identifier)
    return (type(n).__name__, sig(n.left), sig(n.right))

def audit(root):
    """link audit: returns list of problems"""
    probs=[]; seen=set()
    if root.parent is not None: probs.append('root has parent')
    def rec(n):
        if id(n) in seen: probs.append('dup node'); return
        seen.add(id(n))
        for c in (n.left, n.right):
            if c is not None:
                if c.parent is not n: probs.append(f'bad parent at {type(c).__name__}')
                rec(c)
        if isinstance(n, BinaryExpression) and (n.left is None or n.right is None): probs.append('binary missing child')
        if isinstance(n, UnaryExpression) and n.get_child() is None: probs.append('unary missing child')
        if isinstance(n,(ConstantExpression,VariableExpression)) and (n.left or n.right): probs.append('leaf w/ child')
    rec(root); return probs

ENVS=[]
rnd=random.Random(1)
VARS="xyzabc"
for i in range(6):
    ENVS.append({v:Fraction(rnd.choice([-3,-2,-1,1,2,3,5,7])+ (rnd.choice([0,Fraction(1,2)]) if i>2 else 0)) for v in VARS})
ENVS.append({v:Fraction(0) for v in VARS})

def diff_val(eq, env):
    # value of left-right for a simple (non chained) equation, else None
    if not isinstance(eq, EqualExpression): return None
    try:
        l=ev(eq.left, env); r=ev(eq.right, env)
        if isinstance(l,tuple) or isinstance(r,tuple): return None
        return l-r
    except Undef: return None
def root_envs(eq):
    out=[]
    for base in ENVS[:4]:
        for v in variables(eq):
            e0=dict(base); e0[v]=Fraction(0); e1=dict(base); e1[v]=Fraction(1)
            f0=diff_val(eq,e0); f1=diff_val(eq,e1)
            if f0 is None or f1 is None or f1==f0: continue
            r = -f0/(f1-f0)
            e=dict(base); e[v]=r
            if diff_val(eq,e)==0: out.append(e)
    return out
def variables(n): return sorted(set(v.identifier for v in n.find_type(VariableExpression)))

def check_text(s, out):
    try: root = P.parse(s).clone()
    except Exception as e: return
    nodes = root.to_list('inorder')
    for idx in range(len(nodes)):
        for rname, rule in RULES:
            t = root.clone(); n = t.to_list('inorder')[idx]
            before_sig = sig(t)
            try: can = rule.can_apply_to(n)
            except Exception as e:
                out['can_raises'].append((s, idx, rname, repr(e))); continue
            if sig(t)!=before_sig: out['can_mutates'].append((s,idx,rname))
            if not can: continue
            before = t.clone()
            try:
                ch = rule.apply_to(n); after = ch.result.get_root()
            except Exception as e:
                out['apply_raises'].append((s, idx, rname, type(e).__name__+':'+str(e)[:60])); continue
            a = audit(after)
            if a: out['audit'].append((s,idx,rname,a))
            if variables(before)!=variables(after): out['vars'].append((s,idx,rname,str(after)))
            bad=False
            envs=list(ENVS)
            if isinstance(before, EqualExpression) or isinstance(after, EqualExpression):
                envs += root_envs(before)+root_envs(after)
            for env in envs:
                db,tb,vb = holds(before, env); da,ta,va = holds(after, env)
                if db and da:
                    if isinstance(before, EqualExpression) or isinstance(after, EqualExpression):
                        if tb!=ta: bad=True; break
                    elif vb!=va: bad=True; break
            if bad: out['unsound'].append((s,idx,rname,str(before),str(after)))
            # print/reparse
            try:
                txt = str(after); re_ = ExpressionParser().parse(txt)
                ok=True
                for env in ENVS:
                    d1,t1,v1 = holds(after, env); d2,t2,v2 = holds(re_, env)
                    if d1!=d2 or (d1 and (t1!=t2 or (not isinstance(after,EqualExpression) and v1!=v2))): ok=False;break
                if not ok: out['reparse_value'].append((s,idx,rname,txt,str(re_)))
            except Exception as e:
                out['reparse_fail'].append((s,idx,rname,str(after) if True else '', type(e).__name__))
if __name__=="__main__":
    out=collections.defaultdict(list)
    for s in sys.argv[1:]:
        check_text(s,out)
    for k,v in out.items():
        print("==",k,len(v))
        for x in v[:40]: print("   ",x)
